package statedb

// D2 (C07): deleteTracker.deleted reads txn.root() instead of the committed
// root, so Next(wtxn) hands out deletions that are not committed (and that
// stay delivered after Abort).

import "testing"

func TestVerifD2_NextDeliversUncommittedDelete(t *testing.T) {
	db, table, _ := newTestDB(t)
	wtxn := db.WriteTxn(table)
	table.Insert(wtxn, &testObject{ID: 1})
	table.Insert(wtxn, &testObject{ID: 2})
	it, err := table.Changes(wtxn)
	if err != nil {
		t.Fatal(err)
	}
	wtxn.Commit()
	seq, _ := it.Next(db.ReadTxn())
	for range seq {
	}
	// a committed change, so that the next Next() refreshes
	wtxn = db.WriteTxn(table)
	table.Insert(wtxn, &testObject{ID: 3})
	wtxn.Commit()

	wtxn = db.WriteTxn(table)
	table.Delete(wtxn, &testObject{ID: 1})
	seq, _ = it.Next(wtxn)
	for ch := range seq {
		if ch.Deleted {
			t.Errorf("uncommitted deletion of %d delivered (rev %d)", ch.Object.ID, ch.Revision)
		}
	}
	wtxn.Abort()
	if _, _, ok := table.Get(db.ReadTxn(), idIndex.Query(1)); !ok {
		t.Fatal("object 1 should still exist after Abort")
	}
	it.Close()
}
