// D11 (C17): Set.All() must stop when the loop body stops. yieldAll ignores the result of
// yield, so breaking out of "for v := range set.All()" over a set with two or more elements
// panics ("range function continued iteration after function for loop body returned false").
// Run: see /verif/findings/README (go test -overlay, package part).
package part

import "testing"

func TestVerifFinding_D11_SetAllBreak(t *testing.T) {
	s := NewSet("a", "b", "c")
	n := 0
	defer func() {
		if r := recover(); r != nil {
			t.Fatalf("D11: breaking out of range over Set.All() panics: %v", r)
		}
	}()
	for range s.All() {
		n++
		break
	}
	if n != 1 {
		t.Fatalf("D11: visited %d elements before break", n)
	}
	// early exit through a consumer that stops after the first element
	cnt := 0
	s.All()(func(string) bool { cnt++; return false })
	if cnt != 1 {
		t.Fatalf("D11: Set.All() called yield %d times after it returned false", cnt)
	}
}
