package statedb

// D13 (C04): List on a UNIQUE index with the empty key. index.String("") is a nil key; partList
// returned a one-element iterator that used "key != nil" to mean "holds an object", so the
// object stored under the empty key was found by Get but never yielded by List. Found by the
// table-level query probe (statedb-query); fixed by 3cc513b.

import (
	"testing"

	"github.com/cilium/statedb/index"
)

type d13Obj struct {
	ID   uint64
	Name string
}

func (d13Obj) TableHeader() []string { return []string{"ID", "Name"} }
func (o d13Obj) TableRow() []string  { return []string{"", o.Name} }

func TestD13_ListEmptyKeyUniqueIndex(t *testing.T) {
	idIndex := Index[d13Obj, uint64]{Name: "id", FromObject: func(o d13Obj) index.KeySet { return index.NewKeySet(index.Uint64(o.ID)) }, FromKey: index.Uint64, Unique: true}
	nameIndex := Index[d13Obj, string]{Name: "name", FromObject: func(o d13Obj) index.KeySet { return index.NewKeySet(index.String(o.Name)) }, FromKey: index.String, Unique: true}
	db := New()
	tbl, err := NewTable(db, "d13", idIndex, nameIndex)
	if err != nil {
		t.Fatal(err)
	}
	w := db.WriteTxn(tbl)
	tbl.Insert(w, d13Obj{1, ""})
	tbl.Insert(w, d13Obj{2, "x"})
	w.Commit()
	r := db.ReadTxn()
	_, _, ok := tbl.Get(r, nameIndex.Query(""))
	n := 0
	for range tbl.List(r, nameIndex.Query("")) {
		n++
	}
	m := 0
	for range tbl.List(r, nameIndex.Query("x")) {
		m++
	}
	t.Logf("Get found=%v, List(\"\") yields %d, List(\"x\") yields %d", ok, n, m)
	if ok && n != 1 {
		t.Fatalf("Get finds the object with the empty key but List yields %d objects", n)
	}
}
