package statedb

// D7 (C04): index.KeySet uses a nil head to mean "empty set", but Exists()
// compares the nil head as if it were the empty key and NewKeySet(nil) builds
// an "empty" set out of one (empty) key.

import (
	"testing"

	"github.com/cilium/statedb/index"
	"github.com/cilium/statedb/part"
)

func TestVerifD7_DeleteLeavesEmptySecondaryKeyBehind(t *testing.T) {
	db := New()
	table, err := NewTable(db, "test", idIndex, tagsIndex)
	if err != nil {
		t.Fatal(err)
	}
	wtxn := db.WriteTxn(table)
	table.Insert(wtxn, &testObject{ID: 1, Tags: part.NewSet("")})
	wtxn.Commit()
	wtxn = db.WriteTxn(table)
	table.Delete(wtxn, &testObject{ID: 1})
	rtxn := wtxn.Commit()
	if n := table.NumObjects(rtxn); n != 0 {
		t.Fatalf("NumObjects = %d", n)
	}
	for obj := range table.List(rtxn, tagsIndex.Query("")) {
		t.Errorf("deleted object %d still listed through the tags index", obj.ID)
	}
}

func TestVerifD7_EmptyStringSecondaryKeyNotIndexed(t *testing.T) {
	db := New()
	table, err := NewTable(db, "test", idIndex, keyIndex)
	if err != nil {
		t.Fatal(err)
	}
	wtxn := db.WriteTxn(table)
	table.Insert(wtxn, &testObject{ID: 1, Key: ""})
	rtxn := wtxn.Commit()
	if _, _, ok := table.Get(rtxn, keyIndex.Query("")); !ok {
		t.Errorf("object with empty secondary key is not in the secondary index")
	}
}

func TestVerifD7_KeySet(t *testing.T) {
	var empty index.KeySet
	if empty.Exists(index.Key{}) {
		t.Errorf("empty KeySet claims to contain the empty key")
	}
	ks := index.NewKeySet(index.String(""))
	n := 0
	ks.Foreach(func(index.Key) { n++ })
	if n != 1 || !ks.Exists(nil) {
		t.Errorf("NewKeySet(String(\"\")): Foreach visited %d keys, Exists=%v", n, ks.Exists(nil))
	}
}
