package part

// D4 (C17): FromMap inserts the receiver's singleton after the argument's
// entries, so the older value wins over the later write.

import "testing"

func TestVerifD4_FromMapSingletonOverridesArgument(t *testing.T) {
	var m Map[string, int]
	m = m.Set("k", 0)
	m2 := FromMap(m, map[string]int{"k": 1, "j": 2})
	if v, ok := m2.Get("k"); !ok || v != 1 {
		t.Fatalf("FromMap: expected k=1 (later write wins), got %v %v", v, ok)
	}
	if v, ok := m.Get("k"); !ok || v != 0 {
		t.Fatalf("original changed: %v %v", v, ok)
	}
}
