package lpm

// D5 (C13): Txn.Prefix returns the node at which the query diverges, so
// Prefix(q) yields stored prefixes that q does not cover.

import "testing"

func TestVerifD5_PrefixYieldsUncoveredEntries(t *testing.T) {
	trie := New[int]()
	txn := trie.Txn()
	txn.Insert(EncodeLPMKey([]byte{10, 1}, 16), 1)
	trie = txn.Commit()

	it := trie.Prefix(EncodeLPMKey([]byte{10, 2}, 16))
	for k, v := range it.All {
		d, l := DecodeLPMKey(k)
		t.Errorf("Prefix(10.2/16) yielded %v/%d = %d", d, l, v)
	}

	txn = trie.Txn()
	txn.Insert(EncodeLPMKey([]byte{10, 1, 1}, 24), 2)
	trie = txn.Commit()
	it = trie.Prefix(EncodeLPMKey([]byte{10, 1, 0, 5}, 32))
	for k, v := range it.All {
		d, l := DecodeLPMKey(k)
		t.Errorf("Prefix(10.1.0.5/32) yielded %v/%d = %d", d, l, v)
	}
	// sanity: covered ones are still found
	n := 0
	for range trie.Prefix(EncodeLPMKey([]byte{10}, 8)).All {
		n++
	}
	if n != 2 {
		t.Errorf("Prefix(10/8) yielded %d entries, want 2", n)
	}
}
