package statedb

// D1 (C01, C02): lpmEntry.upsert mutates the tail backing array that is shared
// with committed snapshots. Injected with -overlay as /repo/zz_d1_test.go.

import (
	"testing"

	"net/netip"
)

func TestVerifD1_SnapshotSeesUncommittedLPMWrite(t *testing.T) {
	db := New()
	tbl := newLPMNonUniqueTestTable(db)
	pfx := netip.MustParsePrefix("10.0.0.0/8")

	wtxn := db.WriteTxn(tbl)
	for _, id := range []uint16{1, 2, 3} {
		tbl.Insert(wtxn, lpmTestObject{ID: id, Prefix: pfx, Port: 0x1234, PortPrefixLen: 16})
	}
	wtxn.Commit()
	snap := db.ReadTxn()
	q := lpmPortNonUniqueIndex.Query([]byte{0x12, 0x34}, 16)
	before := Collect(tbl.List(snap, q))

	wtxn = db.WriteTxn(tbl)
	// same primary key 2, same secondary key, different payload
	tbl.Insert(wtxn, lpmTestObject{ID: 2, Prefix: netip.MustParsePrefix("99.0.0.0/8"), Port: 0x1234, PortPrefixLen: 16})
	mid := Collect(tbl.List(snap, q))
	wtxn.Abort()
	after := Collect(tbl.List(snap, q))

	for i := range before {
		if before[i] != mid[i] {
			t.Errorf("snapshot changed by pending write: before=%v mid=%v", before[i], mid[i])
		}
		if before[i] != after[i] {
			t.Errorf("snapshot changed after Abort: before=%v after=%v", before[i], after[i])
		}
	}
}

func TestVerifD1_SnapshotSeesUncommittedLPMInsertShift(t *testing.T) {
	db := New()
	tbl := newLPMNonUniqueTestTable(db)
	pfx := netip.MustParsePrefix("10.0.0.0/8")
	q := lpmPortNonUniqueIndex.Query([]byte{0x12, 0x34}, 16)

	// Build a tail with spare capacity: ids 1,3,5,7,9 inserted one by one.
	for _, id := range []uint16{1, 3, 5, 7, 9} {
		wtxn := db.WriteTxn(tbl)
		tbl.Insert(wtxn, lpmTestObject{ID: id, Prefix: pfx, Port: 0x1234, PortPrefixLen: 16})
		wtxn.Commit()
	}
	snap := db.ReadTxn()
	before := Collect(tbl.List(snap, q))
	wtxn := db.WriteTxn(tbl)
	tbl.Insert(wtxn, lpmTestObject{ID: 4, Prefix: pfx, Port: 0x1234, PortPrefixLen: 16})
	mid := Collect(tbl.List(snap, q))
	wtxn.Abort()
	if len(before) != len(mid) {
		t.Fatalf("len changed %d -> %d", len(before), len(mid))
	}
	for i := range before {
		if before[i] != mid[i] {
			t.Errorf("snapshot element %d changed by pending insert: %v -> %v", i, before[i], mid[i])
		}
	}
}
