package statedb

// D3 (C05, C02): Commit() publishes a root that is as long as the root seen
// by WriteTxn(), dropping tables registered while the transaction was open.

import "testing"

func TestVerifD3_CommitDropsTableRegisteredDuringTxn(t *testing.T) {
	db, table, _ := newTestDB(t)
	wtxn := db.WriteTxn(table)
	table.Insert(wtxn, &testObject{ID: 1})

	table2 := newTestObjectTable(t, db, "second")
	if db.GetTable(db.ReadTxn(), "second") == nil {
		t.Fatal("second table not registered")
	}
	wtxn.Commit()

	if db.GetTable(db.ReadTxn(), "second") == nil {
		t.Fatalf("table registered while a write transaction was open was lost by Commit (root has %d tables)", len(db.ReadTxn().root()))
	}
	w2 := db.WriteTxn(table2)
	table2.Insert(w2, &testObject{ID: 2})
	w2.Commit()
	if _, _, ok := table.Get(db.ReadTxn(), idIndex.Query(1)); !ok {
		t.Fatal("committed write lost")
	}
}
