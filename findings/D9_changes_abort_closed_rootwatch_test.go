package statedb

// D9 (C02): Changes(wtxn) registers the delete tracker with part.Tree.Insert, which commits
// AND NOTIFIES the tracker tree inside the still-open statedb transaction: the root watch
// channel of the committed tracker tree is closed. If the transaction is then aborted, the
// committed table entry still references that tree, and the next Changes() on the table
// closes the same channel again: panic "close of closed channel".

import "testing"

func TestVerifD9_ChangesInAbortedTxnLeavesTrace(t *testing.T) {
	db, table, _ := newTestDB(t)
	wtxn := db.WriteTxn(table)
	it, err := table.Changes(wtxn)
	if err != nil {
		t.Fatal(err)
	}
	wtxn.Abort()
	_ = it

	defer func() {
		if r := recover(); r != nil {
			t.Fatalf("Changes() after an aborted Changes() panicked: %v", r)
		}
	}()
	wtxn = db.WriteTxn(table)
	it2, err := table.Changes(wtxn)
	if err != nil {
		t.Fatal(err)
	}
	wtxn.Commit()
	it2.Close()
}
