package statedb

// D8 (C18, C04) — known finding, not repaired: the composite key of a
// non-unique index is enc(secondary) 0x00 enc(primary) len16(enc(primary)).
// Nothing terminates enc(primary), so when one primary key is a proper prefix
// of another the comparison runs into the 16-bit length suffix; for encoded
// primary keys of 256 bytes or more the suffix's high byte is >= 0x01 and can
// exceed the next byte of the longer key.

import (
	"strings"
	"testing"

	"github.com/cilium/statedb/part"
)

func TestVerifD8_NonUniqueOrderLongPrimaryKeys(t *testing.T) {
	db := New()
	table, err := NewTable(db, "test", keyIndex, tagsIndex)
	if err != nil {
		t.Fatal(err)
	}
	short := strings.Repeat("x", 512)
	long := short + "\x01"
	wtxn := db.WriteTxn(table)
	table.Insert(wtxn, &testObject{ID: 1, Key: short, Tags: part.NewSet("t")})
	table.Insert(wtxn, &testObject{ID: 2, Key: long, Tags: part.NewSet("t")})
	rtxn := wtxn.Commit()
	var got []uint64
	for obj := range table.List(rtxn, tagsIndex.Query("t")) {
		got = append(got, obj.ID)
	}
	if len(got) != 2 || got[0] != 1 || got[1] != 2 {
		t.Errorf("List by non-unique index: got ids %v, want [1 2] (ties broken by primary key)", got)
	}
}
