package part

// D6 (C17): MapTxn.Commit documents that the transaction can be used again,
// but Commit() hands the underlying *Txn to the tree for recycling, so a later
// write through the committed map takes over the same *Txn object.

import "testing"

func TestVerifD6_MapTxnReuseAfterCommit(t *testing.T) {
	var m Map[string, int]
	txn := m.Txn()
	txn.Set("a", 1)
	txn.Set("b", 2)
	m1 := txn.Commit()

	m2 := m1.Set("c", 3) // unrelated write through the committed map
	_ = m2

	txn.Set("d", 4) // "The transaction can be used again"
	m3 := txn.Commit()

	if _, found := m3.Get("c"); found {
		t.Errorf("m3 contains key c that was never written through the transaction")
	}
	if m3.Len() != 3 {
		t.Errorf("m3.Len() = %d, want 3 (a, b, d)", m3.Len())
	}
	if m1.Len() != 2 {
		t.Errorf("m1 changed: Len() = %d", m1.Len())
	}
	if _, found := m2.Get("d"); found || m2.Len() != 3 {
		t.Errorf("m2 changed: %d", m2.Len())
	}
}
