// D12 (C19): the function returned by RegisterInitializer guards itself with a sync.Once, so
// calling it in a transaction that is then ABORTED uses it up: calling it again in a committed
// transaction does nothing and the table never becomes initialized, although the initializer
// "has been marked done in a committed transaction".
package statedb

import "testing"

func TestVerifFinding_D12_MarkDoneInAbortedTxn(t *testing.T) {
	db, table, _ := newTestDB(t)

	wtxn := db.WriteTxn(table)
	done := table.RegisterInitializer(wtxn, "init")
	wtxn.Commit()
	if init, _ := table.Initialized(db.ReadTxn()); init {
		t.Fatalf("initialized with a pending initializer")
	}

	// mark done in a transaction that is aborted: no effect on the committed state
	wtxn = db.WriteTxn(table)
	done(wtxn)
	wtxn.Abort()
	if init, _ := table.Initialized(db.ReadTxn()); init {
		t.Fatalf("aborted mark took effect")
	}

	// mark done again, this time committed
	wtxn = db.WriteTxn(table)
	done(wtxn)
	wtxn.Commit()
	rtxn := db.ReadTxn()
	if init, _ := table.Initialized(rtxn); !init {
		t.Fatalf("D12: initializer marked done in a committed transaction, table still uninitialized, pending=%v", table.PendingInitializers(rtxn))
	}
}
