package statedb

// Bounded probe (C10): WriteTxn with duplicated tables is granted for every table position
// (70 tables registered, so positions beyond a machine word are covered), and concurrent
// writers over random overlapping table sets, given in random order with duplicates, all
// finish (watchdog).

import (
	"fmt"
	"math/rand"
	"os"
	"strconv"
	"sync"
	"testing"
	"time"

	"github.com/cilium/statedb/index"
)

type probeObj struct{ ID uint64 }

func (probeObj) TableHeader() []string { return []string{"ID"} }
func (o probeObj) TableRow() []string  { return []string{fmt.Sprint(o.ID)} }

func probeTables(t *testing.T, db *DB, n int) []RWTable[probeObj] {
	var tables []RWTable[probeObj]
	for i := 0; i < n; i++ {
		idx := Index[probeObj, uint64]{
			Name:       "id",
			FromObject: func(o probeObj) index.KeySet { return index.NewKeySet(index.Uint64(o.ID)) },
			FromKey:    index.Uint64,
			Unique:     true,
		}
		tbl, err := NewTable(db, fmt.Sprintf("probe%d", i), idx)
		if err != nil {
			t.Fatal(err)
		}
		tables = append(tables, tbl)
	}
	return tables
}

func withWatchdog(t *testing.T, d time.Duration, what string, f func()) bool {
	done := make(chan struct{})
	go func() {
		f()
		close(done)
	}()
	select {
	case <-done:
		return true
	case <-time.After(d):
		t.Errorf("VERIF-FAIL: writetxn: %s was not granted within %v (deadlock)", what, d)
		return false
	}
}

func TestVerifProbe_WriteTxnDuplicates(t *testing.T) {
	db := New()
	tables := probeTables(t, db, 70)
	cases := 0
	for i, tbl := range tables {
		sets := [][]TableMeta{{tbl, tbl}, {tbl, tables[(i+1)%len(tables)], tbl}, {tables[(i+7)%len(tables)], tbl, tables[(i+7)%len(tables)], tbl}}
		for _, set := range sets {
			ok := withWatchdog(t, 5*time.Second, fmt.Sprintf("WriteTxn with duplicates of table position %d (%d arguments)", i, len(set)), func() {
				wtxn := db.WriteTxn(set...)
				tbl.Insert(wtxn, probeObj{ID: uint64(i)})
				wtxn.Commit()
			})
			if !ok {
				return
			}
			cases++
		}
	}
	fmt.Printf("VERIF-CASES=%d\n", cases)
}

func TestVerifProbe_WriteTxnConcurrent(t *testing.T) {
	seed, err := strconv.ParseInt(os.Getenv("VERIF_SEED"), 10, 64)
	if err != nil {
		seed = 1
	}
	rounds := 300
	if os.Getenv("VERIF_TIER") == "thorough" {
		rounds = 5000
	}
	db := New()
	tables := probeTables(t, db, 6)
	var total int64
	var mu sync.Mutex
	ok := withWatchdog(t, 120*time.Second, "concurrent writers over random table sets", func() {
		var wg sync.WaitGroup
		for g := 0; g < 8; g++ {
			wg.Add(1)
			go func(g int) {
				defer wg.Done()
				rng := rand.New(rand.NewSource(seed*100 + int64(g)))
				for r := 0; r < rounds; r++ {
					var set []TableMeta
					for k := 0; k <= rng.Intn(5); k++ {
						set = append(set, tables[rng.Intn(len(tables))])
					}
					wtxn := db.WriteTxn(set...)
					for _, m := range set {
						m.(RWTable[probeObj]).Insert(wtxn, probeObj{ID: uint64(rng.Intn(8))})
					}
					if rng.Intn(4) == 0 {
						wtxn.Abort()
					} else {
						wtxn.Commit()
					}
					mu.Lock()
					total++
					mu.Unlock()
				}
			}(g)
		}
		wg.Wait()
	})
	if ok {
		fmt.Printf("VERIF-CASES=%d\n", total)
	}
}
