package statedb

// Bounded probe (C20): WatchSet.Wait over all subsets of up to 4 member channels that are
// closed before the wait, all subsets closed during the settle window, with and without
// settle time and with a cancelled context: returned channels are closed members, exactly
// they are removed, the others stay, and no result is produced while nothing is closed.

import (
	"context"
	"fmt"
	"testing"
	"time"
)

func TestVerifProbe_WatchSetWait(t *testing.T) {
	const n = 4
	cases := 0
	for before := 0; before < 1<<n; before++ {
		for during := 0; during < 1<<n; during++ {
			if before&during != 0 {
				continue
			}
			for _, settle := range []time.Duration{0, 30 * time.Millisecond} {
				if settle == 0 && during != 0 {
					continue
				}
				ws := NewWatchSet()
				var chans [n]chan struct{}
				for i := range chans {
					chans[i] = make(chan struct{})
					ws.Add(chans[i])
				}
				extra := make(chan struct{}) // never a member
				close(extra)
				for i := range chans {
					if before&(1<<i) != 0 {
						close(chans[i])
					}
				}
				ctx, cancel := context.WithTimeout(context.Background(), time.Second)
				if during != 0 {
					go func() {
						time.Sleep(5 * time.Millisecond)
						for i := range chans {
							if during&(1<<i) != 0 {
								close(chans[i])
							}
						}
					}()
				}
				got, err := ws.Wait(ctx, settle)
				cancel()
				descr := fmt.Sprintf("before=%04b during=%04b settle=%v", before, during, settle)
				closedNow := before | during
				if before == 0 && during == 0 {
					if len(got) != 0 || err == nil {
						t.Fatalf("VERIF-FAIL: watchset: %s: returned %d channels, err=%v although nothing closed", descr, len(got), err)
					}
				} else if len(got) == 0 {
					t.Fatalf("VERIF-FAIL: watchset: %s: no channel returned (err=%v)", descr, err)
				}
				returned := 0
				for _, ch := range got {
					idx := -1
					for i := range chans {
						if (<-chan struct{})(chans[i]) == ch {
							idx = i
						}
					}
					if idx < 0 {
						t.Fatalf("VERIF-FAIL: watchset: %s: returned a channel that was never added", descr)
					}
					if closedNow&(1<<idx) == 0 {
						t.Fatalf("VERIF-FAIL: watchset: %s: returned channel %d which is not closed", descr, idx)
					}
					if returned&(1<<idx) != 0 {
						t.Fatalf("VERIF-FAIL: watchset: %s: channel %d returned twice", descr, idx)
					}
					returned |= 1 << idx
				}
				if settle > 0 && before != 0 && returned&before != before {
					t.Fatalf("VERIF-FAIL: watchset: %s: channels closed before the wait were not all gathered within the settle time (returned %04b)", descr, returned)
				}
				for i := range chans {
					if ws.Has(chans[i]) == (returned&(1<<i) != 0) {
						t.Fatalf("VERIF-FAIL: watchset: %s: returned=%04b but Has(channel %d)=%v (exactly the returned channels must be removed)", descr, returned, i, ws.Has(chans[i]))
					}
				}
				if ws.Has(extra) {
					t.Fatalf("VERIF-FAIL: watchset: %s: foreign channel in the set", descr)
				}
				cases++
			}
		}
	}
	// cancelled context with open members: the context's error, nothing removed
	ws := NewWatchSet()
	ch := make(chan struct{})
	ws.Add(ch)
	ctx, cancel := context.WithCancel(context.Background())
	cancel()
	got, err := ws.Wait(ctx, 10*time.Millisecond)
	if len(got) != 0 || err != context.Canceled || !ws.Has(ch) {
		t.Fatalf("VERIF-FAIL: watchset: cancelled context: got %d channels, err=%v, member kept=%v", len(got), err, ws.Has(ch))
	}
	cases++
	fmt.Printf("VERIF-CASES=%d\n", cases)
}
