package statedb

// Bounded probe (C19): table initialisation over all short histories of
//   Reg(name, commit|abort)   - RegisterInitializer in its own write transaction
//   Done(handle, commit|abort) - calling a mark-done function in its own write transaction
//   Write(commit)              - an unrelated insert
// with two initializer names (a name may be registered again once its earlier registration is no
// longer pending), against a model in which a mark is
// effective exactly if it was made in a committed transaction. After every step a fresh snapshot
// and every earlier snapshot are checked: Initialized, PendingInitializers, and that a watch
// channel is closed only if the latest snapshot shows the table initialized (and is closed once
// the snapshot it came from was uninitialized and a later one is initialized).
//
// Histories in which a mark-done function is called in an ABORTED transaction and called again
// later are excluded here: that is known finding D12 (the function is guarded by a sync.Once
// that the aborted call uses up); it has its own one-history probe below. Mark-done functions
// of registrations that were themselves aborted are not called either (same finding: the
// function is not tied to the fate of its registration and dereferences a nil entry).

import (
	"fmt"
	"os"
	"sort"
	"strings"
	"testing"
)

type verifInitOp struct {
	kind   byte // 'R' register, 'D' done, 'W' write
	name   int  // for R
	handle int  // for D: index into the handles created so far
	commit bool
}

func (o verifInitOp) String() string {
	c := "abort"
	if o.commit {
		c = "commit"
	}
	switch o.kind {
	case 'R':
		return fmt.Sprintf("Reg(%c,%s)", 'a'+o.name, c)
	case 'D':
		return fmt.Sprintf("Done(h%d,%s)", o.handle, c)
	}
	return "Write"
}

type verifInitSnap struct {
	txn     ReadTxn
	pending []string
	watch   <-chan struct{}
	init    bool
}

func verifRunInitHistory(t *testing.T, ops []verifInitOp) (fail string) {
	db, table, _ := newTestDB(t)
	names := []string{"a", "b"}
	type handle struct {
		fn        func(WriteTxn)
		name      string
		committed bool // the registration was committed
	}
	var handles []handle
	pending := map[string]int{} // committed pending set (model): name -> index of the pending registration
	var snaps []verifInitSnap
	check := func(step int) string {
		rtxn := db.ReadTxn()
		init, watch := table.Initialized(rtxn)
		var want []string
		for n := range pending {
			want = append(want, n)
		}
		sort.Strings(want)
		got := append([]string(nil), table.PendingInitializers(rtxn)...)
		sort.Strings(got)
		if strings.Join(got, ",") != strings.Join(want, ",") {
			return fmt.Sprintf("step %d: PendingInitializers=%v want %v", step, got, want)
		}
		if init != (len(want) == 0) {
			return fmt.Sprintf("step %d: Initialized=%v with pending %v", step, init, want)
		}
		closed := func(c <-chan struct{}) bool {
			select {
			case <-c:
				return true
			default:
				return false
			}
		}
		if init != closed(watch) {
			return fmt.Sprintf("step %d: Initialized=%v but its watch channel closed=%v", step, init, closed(watch))
		}
		snaps = append(snaps, verifInitSnap{rtxn, want, watch, init})
		// earlier snapshots are frozen; their channels close only once the table is initialized
		for k, s := range snaps[:len(snaps)-1] {
			i2, _ := table.Initialized(s.txn)
			g2 := append([]string(nil), table.PendingInitializers(s.txn)...)
			sort.Strings(g2)
			if i2 != s.init || strings.Join(g2, ",") != strings.Join(s.pending, ",") {
				return fmt.Sprintf("step %d: snapshot %d changed: Initialized=%v pending=%v, was %v %v", step, k, i2, g2, s.init, s.pending)
			}
			if !s.init && closed(s.watch) {
				// some snapshot at or after it must show the table initialized
				ok := false
				for _, later := range snaps[k+1:] {
					if later.init {
						ok = true
					}
				}
				if !ok {
					return fmt.Sprintf("step %d: watch channel of snapshot %d closed although no snapshot shows the table initialized", step, k)
				}
			}
		}
		return ""
	}
	if msg := check(0); msg != "" {
		return msg
	}
	for i, op := range ops {
		wtxn := db.WriteTxn(table)
		switch op.kind {
		case 'R':
			fn := table.RegisterInitializer(wtxn, names[op.name])
			handles = append(handles, handle{fn, names[op.name], op.commit})
			if op.commit {
				pending[names[op.name]] = len(handles) - 1
			}
		case 'D':
			h := handles[op.handle]
			h.fn(wtxn)
			if cur, ok := pending[h.name]; op.commit && h.committed && ok && cur == op.handle {
				delete(pending, h.name) // a mark completes its OWN registration only
			}
		case 'W':
			table.Insert(wtxn, &testObject{ID: uint64(i + 1)})
		}
		if op.commit {
			wtxn.Commit()
		} else {
			wtxn.Abort()
		}
		if msg := check(i + 1); msg != "" {
			return msg
		}
	}
	return ""
}

func TestVerifProbe_InitHistories(t *testing.T) {
	depth := 4
	if os.Getenv("VERIF_TIER") == "thorough" {
		depth = 5
	}
	cases := 0
	var rec func(ops []verifInitOp, nh int, abortedDone map[int]bool)
	rec = func(ops []verifInitOp, nh int, abortedDone map[int]bool) {
		if len(ops) > 0 {
			if msg := verifRunInitHistory(t, ops); msg != "" {
				t.Fatalf("VERIF-FAIL: init: history %v: %s", ops, msg)
			}
			cases++
		}
		if len(ops) == depth {
			return
		}
		pend := verifPendingAfter(ops)
		for n := 0; n < 2; n++ {
			if _, isPending := pend[n]; isPending {
				continue // RegisterInitializer panics for a name that is already pending
			}
			for _, c := range []bool{true, false} {
				rec(append(append([]verifInitOp(nil), ops...), verifInitOp{kind: 'R', name: n, commit: c}), nh+1, abortedDone)
			}
		}
		for h := 0; h < nh; h++ {
			if abortedDone[h] {
				continue // D12: a handle already called in an aborted transaction (own probe)
			}
			if !verifHandleCommitted(ops, h) {
				continue // D12 family: the mark-done function of an ABORTED registration dereferences a nil init entry
			}
			for _, c := range []bool{true, false} {
				ad := abortedDone
				if !c {
					ad = map[int]bool{}
					for k, v := range abortedDone {
						ad[k] = v
					}
					ad[h] = true
				}
				rec(append(append([]verifInitOp(nil), ops...), verifInitOp{kind: 'D', handle: h, commit: c}), nh, ad)
			}
		}
		rec(append(append([]verifInitOp(nil), ops...), verifInitOp{kind: 'W', commit: true}), nh, abortedDone)
	}
	rec(nil, 0, map[int]bool{})
	fmt.Printf("VERIF-CASES=%d\n", cases)
}

// Known finding D12: mark-done in an aborted transaction uses the function up.
func TestVerifProbe_InitMarkDoneAfterAbortedMark(t *testing.T) {
	ops := []verifInitOp{{kind: 'R', name: 0, commit: true}, {kind: 'D', handle: 0, commit: false}, {kind: 'D', handle: 0, commit: true}}
	if msg := verifRunInitHistory(t, ops); msg != "" {
		t.Fatalf("VERIF-FAIL: aborted-mark: history %v: %s", ops, msg)
	}
	fmt.Printf("VERIF-CASES=1\n")
}

// verifHandleCommitted reports whether the h-th registration of the history was committed.
func verifHandleCommitted(ops []verifInitOp, h int) bool {
	k := 0
	for _, o := range ops {
		if o.kind == 'R' {
			if k == h {
				return o.commit
			}
			k++
		}
	}
	return false
}

// verifPendingAfter replays the model: name index -> handle index of its pending registration.
func verifPendingAfter(ops []verifInitOp) map[int]int {
	pend := map[int]int{}
	var regName []int
	var regCommitted []bool
	for _, o := range ops {
		switch o.kind {
		case 'R':
			regName = append(regName, o.name)
			regCommitted = append(regCommitted, o.commit)
			if o.commit {
				pend[o.name] = len(regName) - 1
			}
		case 'D':
			if cur, ok := pend[regName[o.handle]]; o.commit && regCommitted[o.handle] && ok && cur == o.handle {
				delete(pend, regName[o.handle])
			}
		}
	}
	return pend
}
