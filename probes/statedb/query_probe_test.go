package statedb

// Bounded probe (C04): table-level query exactness. Small tables over a fixed universe of
// objects with
//   - a unique primary index (id),
//   - a unique secondary index (name; names include the empty string and strings that are
//     prefixes of one another or contain the bytes 0x00 / 0x01),
//   - a non-unique multi-key index (tags; same alphabet, an object may carry several tags or none),
// are built by every sequence of up to N mutations (insert / replace / delete) and after every
// step Get, List, Prefix, LowerBound, All and NumObjects - asked of the open write transaction
// and of a snapshot taken after commit - are compared with a model: exactly the objects that
// carry the key / a key with the prefix / a key at or above the bound, each object once, never a
// deleted one, never a pending or aborted one in a snapshot.

import (
	"bytes"
	"fmt"
	"os"
	"sort"
	"strings"
	"testing"

	"github.com/cilium/statedb/index"
)

type verifQObj struct {
	ID   uint64
	Name string
	Tags []string
}

func (verifQObj) TableHeader() []string { return []string{"ID", "Name", "Tags"} }
func (o verifQObj) TableRow() []string {
	return []string{fmt.Sprint(o.ID), o.Name, strings.Join(o.Tags, ",")}
}

var (
	verifQID = Index[verifQObj, uint64]{
		Name:       "id",
		FromObject: func(o verifQObj) index.KeySet { return index.NewKeySet(index.Uint64(o.ID)) },
		FromKey:    index.Uint64,
		Unique:     true,
	}
	verifQName = Index[verifQObj, string]{
		Name:       "name",
		FromObject: func(o verifQObj) index.KeySet { return index.NewKeySet(index.String(o.Name)) },
		FromKey:    index.String,
		Unique:     true,
	}
	verifQTags = Index[verifQObj, string]{
		Name:       "tags",
		FromObject: func(o verifQObj) index.KeySet { return index.StringSlice(o.Tags) },
		FromKey:    index.String,
		Unique:     false,
	}
)

// the key alphabet: empty, nested prefixes, escape bytes
var verifQKeys = []string{"", "a", "ab", "a\x00", "a\x01", "b"}

type verifQModel map[uint64]verifQObj

func (m verifQModel) clone() verifQModel {
	c := verifQModel{}
	for k, v := range m {
		c[k] = v
	}
	return c
}

func verifQIDs(objs []verifQObj) string {
	ids := make([]int, 0, len(objs))
	for _, o := range objs {
		ids = append(ids, int(o.ID))
	}
	sort.Ints(ids)
	return fmt.Sprint(ids)
}

func verifQCollect(seq func(func(verifQObj, Revision) bool)) (objs []verifQObj, dup bool) {
	seen := map[uint64]bool{}
	seq(func(o verifQObj, _ Revision) bool {
		if seen[o.ID] {
			dup = true
		}
		seen[o.ID] = true
		objs = append(objs, o)
		return true
	})
	return
}

func verifQHasTag(o verifQObj, pred func(string) bool) bool {
	for _, t := range o.Tags {
		if pred(t) {
			return true
		}
	}
	return false
}

// verifQCheck compares every query of the alphabet against the model.
func verifQCheck(tbl Table[verifQObj], txn ReadTxn, m verifQModel, where string) string {
	sel := func(pred func(verifQObj) bool) []verifQObj {
		var out []verifQObj
		for _, o := range m {
			if pred(o) {
				out = append(out, o)
			}
		}
		return out
	}
	if n := tbl.NumObjects(txn); n != len(m) {
		return fmt.Sprintf("%s: NumObjects=%d want %d", where, n, len(m))
	}
	all, dup := verifQCollect(tbl.All(txn))
	if dup || verifQIDs(all) != verifQIDs(sel(func(verifQObj) bool { return true })) {
		return fmt.Sprintf("%s: All yields %s (dup=%v), model %s", where, verifQIDs(all), dup, verifQIDs(sel(func(verifQObj) bool { return true })))
	}
	for i := 1; i < len(all); i++ {
		if all[i-1].ID >= all[i].ID {
			return fmt.Sprintf("%s: All not in primary key order", where)
		}
	}
	for id := uint64(1); id <= 4; id++ {
		o, _, ok := tbl.Get(txn, verifQID.Query(id))
		w, wok := m[id]
		if ok != wok || (ok && (o.Name != w.Name || strings.Join(o.Tags, ",") != strings.Join(w.Tags, ","))) {
			return fmt.Sprintf("%s: Get(id=%d) = %+v,%v want %+v,%v", where, id, o, ok, w, wok)
		}
		l, dup := verifQCollect(tbl.List(txn, verifQID.Query(id)))
		if dup || (wok && (len(l) != 1 || l[0].ID != id)) || (!wok && len(l) != 0) {
			return fmt.Sprintf("%s: List(id=%d) yields %s, present=%v", where, id, verifQIDs(l), wok)
		}
	}
	for _, k := range verifQKeys {
		k := k
		// unique secondary index
		want := sel(func(o verifQObj) bool { return o.Name == k })
		o, _, ok := tbl.Get(txn, verifQName.Query(k))
		if ok != (len(want) == 1) || (ok && o.ID != want[0].ID) {
			return fmt.Sprintf("%s: Get(name=%q) = %d,%v, model %s", where, k, o.ID, ok, verifQIDs(want))
		}
		l, dup := verifQCollect(tbl.List(txn, verifQName.Query(k)))
		if dup || verifQIDs(l) != verifQIDs(want) {
			return fmt.Sprintf("%s: List(name=%q) yields %s, model %s", where, k, verifQIDs(l), verifQIDs(want))
		}
		want = sel(func(o verifQObj) bool { return strings.HasPrefix(o.Name, k) })
		l, dup = verifQCollect(tbl.Prefix(txn, verifQName.Query(k)))
		if dup || verifQIDs(l) != verifQIDs(want) {
			return fmt.Sprintf("%s: Prefix(name=%q) yields %s, model %s", where, k, verifQIDs(l), verifQIDs(want))
		}
		for i := 1; i < len(l); i++ {
			if l[i-1].Name >= l[i].Name {
				return fmt.Sprintf("%s: Prefix(name=%q) not in key order", where, k)
			}
		}
		want = sel(func(o verifQObj) bool { return bytes.Compare([]byte(o.Name), []byte(k)) >= 0 })
		l, dup = verifQCollect(tbl.LowerBound(txn, verifQName.Query(k)))
		if dup || verifQIDs(l) != verifQIDs(want) {
			return fmt.Sprintf("%s: LowerBound(name=%q) yields %s, model %s", where, k, verifQIDs(l), verifQIDs(want))
		}
		for i := 1; i < len(l); i++ {
			if l[i-1].Name >= l[i].Name {
				return fmt.Sprintf("%s: LowerBound(name=%q) not in key order", where, k)
			}
		}
		// non-unique multi-key index
		want = sel(func(o verifQObj) bool { return verifQHasTag(o, func(t string) bool { return t == k }) })
		o, _, ok = tbl.Get(txn, verifQTags.Query(k))
		if ok != (len(want) > 0) || (ok && !verifQHasTag(o, func(t string) bool { return t == k })) {
			return fmt.Sprintf("%s: Get(tag=%q) = %d,%v, model %s", where, k, o.ID, ok, verifQIDs(want))
		}
		l, dup = verifQCollect(tbl.List(txn, verifQTags.Query(k)))
		if dup || verifQIDs(l) != verifQIDs(want) {
			return fmt.Sprintf("%s: List(tag=%q) yields %s, model %s", where, k, verifQIDs(l), verifQIDs(want))
		}
		for i := 1; i < len(l); i++ {
			if l[i-1].ID >= l[i].ID {
				return fmt.Sprintf("%s: List(tag=%q) not in primary key order", where, k)
			}
		}
		want = sel(func(o verifQObj) bool { return verifQHasTag(o, func(t string) bool { return strings.HasPrefix(t, k) }) })
		l, dup = verifQCollect(tbl.Prefix(txn, verifQTags.Query(k)))
		if dup || verifQIDs(l) != verifQIDs(want) {
			return fmt.Sprintf("%s: Prefix(tag=%q) yields %s (dup=%v), model %s", where, k, verifQIDs(l), dup, verifQIDs(want))
		}
		want = sel(func(o verifQObj) bool {
			return verifQHasTag(o, func(t string) bool { return bytes.Compare([]byte(t), []byte(k)) >= 0 })
		})
		l, dup = verifQCollect(tbl.LowerBound(txn, verifQTags.Query(k)))
		if dup || verifQIDs(l) != verifQIDs(want) {
			return fmt.Sprintf("%s: LowerBound(tag=%q) yields %s (dup=%v), model %s", where, k, verifQIDs(l), dup, verifQIDs(want))
		}
	}
	return ""
}

type verifQOp struct {
	del bool
	obj verifQObj
}

func (o verifQOp) String() string {
	if o.del {
		return fmt.Sprintf("Delete(%d)", o.obj.ID)
	}
	return fmt.Sprintf("Insert(%d,name=%q,tags=%q)", o.obj.ID, o.obj.Name, o.obj.Tags)
}

func TestVerifProbe_QueryExactness(t *testing.T) {
	depth := 3
	if os.Getenv("VERIF_TIER") == "thorough" {
		depth = 4
	}
	// the operation alphabet: ids 1..3 with a few (name, tags) shapes each, and deletes
	shapes := []struct {
		name string
		tags []string
	}{
		{"", []string{""}},
		{"a", []string{"a", "ab"}},
		{"ab", []string{"a\x00", "a"}},
		{"a\x00", []string{"a\x01", "b", ""}},
		{"b", nil},
	}
	var ops []verifQOp
	for id := uint64(1); id <= 3; id++ {
		for _, s := range shapes {
			ops = append(ops, verifQOp{obj: verifQObj{ID: id, Name: s.name, Tags: s.tags}})
		}
		ops = append(ops, verifQOp{del: true, obj: verifQObj{ID: id}})
	}
	cases := 0
	var run func(hist []verifQOp)
	run = func(hist []verifQOp) {
		if len(hist) == depth {
			db := New()
			tbl, err := NewTable(db, "verifq", verifQID, verifQName, verifQTags)
			if err != nil {
				t.Fatalf("NewTable: %v", err)
			}
			m := verifQModel{}
			for step, op := range hist {
				w := db.WriteTxn(tbl)
				next := m.clone()
				var opErr error
				if op.del {
					_, _, opErr = tbl.Delete(w, op.obj)
					delete(next, op.obj.ID)
				} else {
					// the name index is unique: an insert that would give two objects one name
					// is not part of this probe (its outcome is not specified by C04)
					clash := false
					for id, o := range m {
						if id != op.obj.ID && o.Name == op.obj.Name {
							clash = true
						}
					}
					if clash {
						w.Abort()
						return
					}
					_, _, opErr = tbl.Insert(w, op.obj)
					next[op.obj.ID] = op.obj
				}
				if opErr != nil {
					t.Fatalf("VERIF-FAIL: query: history %v step %d: %v", hist, step, opErr)
				}
				if msg := verifQCheck(tbl, w, next, "write txn"); msg != "" {
					t.Fatalf("VERIF-FAIL: query: history %v step %d: %s", hist, step, msg)
				}
				// every other step is aborted first and then redone, so that a snapshot never
				// shows an aborted write
				if step%2 == 1 {
					w.Abort()
					if msg := verifQCheck(tbl, db.ReadTxn(), m, "snapshot after abort"); msg != "" {
						t.Fatalf("VERIF-FAIL: query: history %v step %d: %s", hist, step, msg)
					}
					w = db.WriteTxn(tbl)
					if op.del {
						tbl.Delete(w, op.obj)
					} else {
						tbl.Insert(w, op.obj)
					}
				}
				r := w.Commit()
				m = next
				if msg := verifQCheck(tbl, r, m, "snapshot from Commit"); msg != "" {
					t.Fatalf("VERIF-FAIL: query: history %v step %d: %s", hist, step, msg)
				}
			}
			if msg := verifQCheck(tbl, db.ReadTxn(), m, "fresh snapshot"); msg != "" {
				t.Fatalf("VERIF-FAIL: query: history %v: %s", hist, msg)
			}
			cases++
		}
		if len(hist) == depth {
			return
		}
		for _, op := range ops {
			run(append(append([]verifQOp(nil), hist...), op))
		}
	}
	run(nil)
	fmt.Printf("VERIF-CASES=%d\n", cases)
}

// Wide tables: many objects under few non-unique keys (so that the de-duplication and the
// filters of the non-unique iterators see long runs), written, modified, queried and written
// again inside ONE write transaction (a read after a write in the same transaction must see
// the write - also after Modify, CompareAndSwap and DeleteAll), then replaced and deleted in
// further transactions of which every second one is aborted first.
func TestVerifProbe_QueryWide(t *testing.T) {
	n := 40
	if os.Getenv("VERIF_TIER") == "thorough" {
		n = 400
	}
	tagShapes := [][]string{{"aa", "ab", "b"}, {"a"}, {"", "b"}, {"ab", "a\x00"}, nil, {"b", "a\x01", "aa"}, {"a", "aa", "ab", "a\x00", "a\x01", "b", ""}}
	db := New()
	tbl, err := NewTable(db, "verifqw", verifQID, verifQName, verifQTags)
	if err != nil {
		t.Fatalf("NewTable: %v", err)
	}
	cases := 0
	check := func(txn ReadTxn, m verifQModel, where string) {
		cases++
		if msg := verifQCheck(tbl, txn, m, where); msg != "" {
			t.Fatalf("VERIF-FAIL: query-wide: n=%d %s", n, msg)
		}
	}
	mk := func(i, gen int) verifQObj {
		return verifQObj{ID: uint64(i), Name: fmt.Sprintf("n%04d", i), Tags: tagShapes[(i+gen)%len(tagShapes)]}
	}
	every := 1
	if n > 60 {
		every = n / 40
	}
	m := verifQModel{}
	w := db.WriteTxn(tbl)
	for i := 1; i <= n; i++ {
		o := mk(i, 0)
		if _, _, err := tbl.Insert(w, o); err != nil {
			t.Fatalf("VERIF-FAIL: query-wide: Insert(%d): %v", i, err)
		}
		m[o.ID] = o
		if i%every == 0 || i == n {
			check(w, m, fmt.Sprintf("write txn after %d inserts", i))
		}
	}
	// Modify (existing and new objects), CompareAndSwap, CompareAndDelete: each followed by a read
	for _, i := range []int{1, n / 2, n, n + 1} {
		o := mk(i, 3)
		_, _, err := tbl.Modify(w, o, func(old, new verifQObj) verifQObj {
			new.Tags = append(append([]string(nil), new.Tags...), "ab")
			return new
		})
		if err != nil {
			t.Fatalf("VERIF-FAIL: query-wide: Modify(%d): %v", i, err)
		}
		if _, had := m[o.ID]; had {
			o.Tags = append(append([]string(nil), o.Tags...), "ab")
		}
		m[o.ID] = o
		check(w, m, fmt.Sprintf("write txn after Modify(%d)", i))
	}
	{
		_, rev, _ := tbl.Get(w, verifQID.Query(2))
		o := mk(2, 5)
		if _, _, err := tbl.CompareAndSwap(w, rev, o); err != nil {
			t.Fatalf("VERIF-FAIL: query-wide: CompareAndSwap: %v", err)
		}
		m[o.ID] = o
		check(w, m, "write txn after CompareAndSwap(2)")
		if _, _, err := tbl.CompareAndSwap(w, rev, mk(2, 6)); err == nil {
			t.Fatalf("VERIF-FAIL: query-wide: stale CompareAndSwap accepted")
		}
		check(w, m, "write txn after rejected CompareAndSwap(2)")
		if _, _, err := tbl.CompareAndSwap(w, rev, mk(n+7, 6)); err == nil {
			t.Fatalf("VERIF-FAIL: query-wide: CompareAndSwap of an absent object accepted")
		}
		check(w, m, "write txn after CompareAndSwap of an absent object")
		_, rev3, _ := tbl.Get(w, verifQID.Query(3))
		if _, _, err := tbl.CompareAndDelete(w, rev3+1, mk(3, 0)); err == nil {
			t.Fatalf("VERIF-FAIL: query-wide: stale CompareAndDelete accepted")
		}
		check(w, m, "write txn after rejected CompareAndDelete(3)")
		if _, _, err := tbl.CompareAndDelete(w, rev3, mk(3, 0)); err != nil {
			t.Fatalf("VERIF-FAIL: query-wide: CompareAndDelete: %v", err)
		}
		delete(m, 3)
		check(w, m, "write txn after CompareAndDelete(3)")
	}
	r := w.Commit()
	check(r, m, "snapshot from Commit")
	base := r
	baseModel := m.clone()
	// further transactions: replace with other tag shapes, delete, re-insert; odd rounds aborted first
	for round := 1; round <= 4; round++ {
		apply := func(w WriteTxn, m verifQModel) {
			for i := 1; i <= n; i++ {
				switch (i + round) % 5 {
				case 0:
					tbl.Delete(w, mk(i, 0))
					delete(m, uint64(i))
				case 1, 2:
					o := mk(i, round)
					tbl.Insert(w, o)
					m[o.ID] = o
				}
			}
		}
		next := m.clone()
		w := db.WriteTxn(tbl)
		apply(w, next)
		check(w, next, fmt.Sprintf("round %d write txn", round))
		if round%2 == 1 {
			w.Abort()
			check(db.ReadTxn(), m, fmt.Sprintf("round %d snapshot after abort", round))
			w = db.WriteTxn(tbl)
			next = m.clone()
			apply(w, next)
		}
		r := w.Commit()
		m = next
		check(r, m, fmt.Sprintf("round %d snapshot from Commit", round))
		check(base, baseModel, fmt.Sprintf("round %d first snapshot re-read", round))
	}
	// DeleteAll followed by a read and a write in the same transaction
	w = db.WriteTxn(tbl)
	if err := tbl.DeleteAll(w); err != nil {
		t.Fatalf("VERIF-FAIL: query-wide: DeleteAll: %v", err)
	}
	check(w, verifQModel{}, "write txn after DeleteAll")
	o := mk(1, 1)
	tbl.Insert(w, o)
	check(w, verifQModel{1: o}, "write txn after DeleteAll+Insert")
	w.Abort()
	check(db.ReadTxn(), m, "snapshot after aborted DeleteAll")
	check(base, baseModel, "first snapshot at the end")
	fmt.Printf("VERIF-CASES=%d\n", cases)
}
