package lpm

// Bounded probe (C13): lpm.Trie against a map from bit prefixes, exhaustively for all short
// sequences of inserts/deletes over the prefixes of one byte (all lengths 0..4 quick, plus
// two-byte prefixes in the random part), with every query kind and with every earlier trie
// version re-checked after every step.

import (
	"bytes"
	"fmt"
	"math/rand"
	"os"
	"sort"
	"strconv"
	"testing"

	"github.com/cilium/statedb/index"
)

type pfx struct {
	data []byte
	len  PrefixLen
}

func (p pfx) key() []byte { return EncodeLPMKey(p.data, p.len) }
func (p pfx) String() string {
	return fmt.Sprintf("%x/%d", p.data, p.len)
}

// covers reports whether prefix p covers (is a prefix of, or equal to) prefix q.
func covers(p, q pfx) bool {
	if p.len > q.len {
		return false
	}
	for i := PrefixLen(0); i < p.len; i++ {
		if getBitAt(p.data, i) != getBitAt(q.data, i) {
			return false
		}
	}
	return true
}

// less orders prefixes like the trie iterates them: by the masked data bytes, then by length.
func keyLess(a, b pfx) bool {
	ka, kb := a.key(), b.key()
	da, db := ka[:len(ka)-2], kb[:len(kb)-2]
	if c := bytes.Compare(da, db); c != 0 {
		return c < 0
	}
	return a.len < b.len
}

type lmodel map[string]struct {
	p pfx
	v int
}

func (m lmodel) clone() lmodel {
	n := lmodel{}
	for k, v := range m {
		n[k] = v
	}
	return n
}

type lversion struct {
	trie  Trie[int]
	model lmodel
	name  string
}

func masked(p pfx) pfx {
	k := p.key()
	d, l := DecodeLPMKey(k)
	return pfx{append([]byte(nil), d...), l}
}

func checkTrie(tr interface {
	Len() int
	Lookup(key index.Key) (int, bool)
	LookupExact(key index.Key) (int, bool)
}, all func() *Iterator[int], prefix func(index.Key) *Iterator[int], lower func(index.Key) *Iterator[int], m lmodel, universe []pfx, fullKeys [][]byte, fullLen PrefixLen) string {
	if tr.Len() != len(m) {
		return fmt.Sprintf("Len() = %d want %d", tr.Len(), len(m))
	}
	var want []pfx
	for _, e := range m {
		want = append(want, e.p)
	}
	sort.Slice(want, func(i, j int) bool { return keyLess(want[i], want[j]) })
	collectIt := func(it *Iterator[int]) []string {
		var out []string
		for k, v := range it.All {
			d, l := DecodeLPMKey(k)
			out = append(out, fmt.Sprintf("%x/%d=%d", d, l, v))
		}
		return out
	}
	show := func(ps []pfx) []string {
		var out []string
		for _, p := range ps {
			out = append(out, fmt.Sprintf("%s=%d", masked(p), m[string(p.key())].v))
		}
		return out
	}
	if got, w := collectIt(all()), show(want); fmt.Sprint(got) != fmt.Sprint(w) {
		return fmt.Sprintf("All() yields %v want %v", got, w)
	}
	for _, q := range universe {
		v, ok := tr.LookupExact(q.key())
		e, mok := m[string(q.key())]
		if ok != mok || (ok && v != e.v) {
			return fmt.Sprintf("LookupExact(%s) = %d,%v want %d,%v", q, v, ok, e.v, mok)
		}
		if mok {
			// a stored prefix always looks itself up
			if v, ok := tr.Lookup(q.key()); !ok || v != e.v {
				return fmt.Sprintf("Lookup(%s) of a stored prefix = %d,%v want %d", q, v, ok, e.v)
			}
		}
		var wantP, wantL []pfx
		for _, w := range want {
			if covers(q, w) {
				wantP = append(wantP, w)
			}
			if !keyLess(w, q) {
				wantL = append(wantL, w)
			}
		}
		if got, w := collectIt(prefix(q.key())), show(wantP); fmt.Sprint(got) != fmt.Sprint(w) {
			return fmt.Sprintf("Prefix(%s) yields %v want %v", q, got, w)
		}
		if got, w := collectIt(lower(q.key())), show(wantL); fmt.Sprint(got) != fmt.Sprint(w) {
			return fmt.Sprintf("LowerBound(%s) yields %v want %v", q, got, w)
		}
	}
	for _, fk := range fullKeys {
		q := pfx{fk, fullLen}
		best := -1
		bestV := 0
		for _, e := range m {
			if covers(e.p, q) && int(e.p.len) > best {
				best, bestV = int(e.p.len), e.v
			}
		}
		v, ok := tr.Lookup(q.key())
		if ok != (best >= 0) || (ok && v != bestV) {
			return fmt.Sprintf("Lookup(%s) = %d,%v want %d,%v", q, v, ok, bestV, best >= 0)
		}
	}
	return ""
}

func checkVersion(v lversion, universe []pfx, fullKeys [][]byte, fullLen PrefixLen) string {
	t := v.trie
	return checkTrie(&t, t.All, t.Prefix, t.LowerBound, v.model, universe, fullKeys, fullLen)
}

func lpmThorough() bool { return os.Getenv("VERIF_TIER") == "thorough" }

func TestVerifProbe_TrieExhaustive(t *testing.T) {
	maxLen := 3
	depth := 3
	if lpmThorough() {
		maxLen, depth = 3, 4
	}
	var universe []pfx
	for l := 0; l <= maxLen; l++ {
		for b := 0; b < 1<<l; b++ {
			universe = append(universe, pfx{[]byte{byte(b << (8 - l))}, PrefixLen(l)})
		}
	}
	// also lengths 4 in the queries (not stored) to exercise divergence below stored nodes
	queries := append([]pfx(nil), universe...)
	for b := 0; b < 16; b++ {
		queries = append(queries, pfx{[]byte{byte(b << 4)}, 4})
	}
	var fullKeys [][]byte
	for b := 0; b < 256; b += 5 {
		fullKeys = append(fullKeys, []byte{byte(b)})
	}
	fullKeys = append(fullKeys, []byte{0xff}, []byte{0x80}, []byte{0x7f})
	cases := 0
	val := 0
	var rec func(vs []lversion, d int) bool
	rec = func(vs []lversion, d int) bool {
		if d == 0 {
			cases++
			return true
		}
		base := vs[len(vs)-1]
		for _, p := range universe {
			for _, del := range []bool{false, true} {
				for _, abandon := range []bool{false, true} {
					if abandon && d != 1 {
						continue
					}
					tr := base.trie
					txn := tr.Txn()
					m := base.model.clone()
					if del {
						old, had := txn.Delete(p.key())
						e, mhad := m[string(p.key())]
						if had != mhad || (had && old != e.v) {
							t.Errorf("VERIF-FAIL: trie: %s Delete(%s) = %d,%v want %d,%v", base.name, p, old, had, e.v, mhad)
							return false
						}
						delete(m, string(p.key()))
					} else {
						val++
						txn.Insert(p.key(), val)
						m[string(p.key())] = struct {
							p pfx
							v int
						}{p, val}
					}
					name := fmt.Sprintf("%s,%v%s", base.name, map[bool]string{true: "del ", false: "ins "}[del], p)
					// the transaction itself agrees with the model
					if diff := checkTrie(txn, txn.All, txn.Prefix, txn.LowerBound, m, queries, fullKeys, 8); diff != "" {
						t.Errorf("VERIF-FAIL: trie: inside txn %s: %s", name, diff)
						return false
					}
					next := vs
					if !abandon {
						next = append(vs[:len(vs):len(vs)], lversion{txn.Commit(), m, name})
					}
					for _, old := range next {
						if diff := checkVersion(old, queries, fullKeys, 8); diff != "" {
							t.Errorf("VERIF-FAIL: trie: after %s (abandoned=%v): version %s: %s", name, abandon, old.name, diff)
							return false
						}
					}
					if !rec(next, d-1) {
						return false
					}
				}
			}
		}
		return true
	}
	rec([]lversion{{New[int](), lmodel{}, "new"}}, depth)
	fmt.Printf("VERIF-CASES=%d\n", cases)
}

func TestVerifProbe_TrieRandom(t *testing.T) {
	seed, err := strconv.ParseInt(os.Getenv("VERIF_SEED"), 10, 64)
	if err != nil {
		seed = 1
	}
	rng := rand.New(rand.NewSource(seed))
	n := 300
	if lpmThorough() {
		n = 6000
	}
	cases := 0
	for iter := 0; iter < n; iter++ {
		// universe: prefixes of two bytes with lengths 0..16 over a few bit patterns
		patterns := [][]byte{{0x00, 0x00}, {0xff, 0xff}, {0xa5, 0x5a}, {0x80, 0x01}, {0x7f, 0xfe}, {0xa5, 0x00}}
		var universe []pfx
		for _, pt := range patterns {
			for _, l := range []int{0, 1, 7, 8, 9, 15, 16} {
				universe = append(universe, pfx{pt, PrefixLen(l)})
			}
		}
		var fullKeys [][]byte
		for _, pt := range patterns {
			fullKeys = append(fullKeys, pt)
		}
		vs := []lversion{{New[int](), lmodel{}, "new"}}
		val := 0
		var log []string
		for s := 0; s < 10; s++ {
			base := vs[len(vs)-1]
			if rng.Intn(4) == 0 {
				base = vs[rng.Intn(len(vs))]
			}
			tr := base.trie
			txn := tr.Txn()
			m := base.model.clone()
			for k := 0; k <= rng.Intn(3); k++ {
				p := universe[rng.Intn(len(universe))]
				if rng.Intn(3) == 0 {
					txn.Delete(p.key())
					delete(m, string(p.key()))
					log = append(log, "del "+p.String())
				} else {
					val++
					txn.Insert(p.key(), val)
					m[string(p.key())] = struct {
						p pfx
						v int
					}{masked(p), val}
					log = append(log, "ins "+p.String())
				}
				if rng.Intn(5) == 0 {
					for range txn.All().All { // an iterator taken in the middle freezes the trie
						break
					}
				}
			}
			if rng.Intn(4) != 0 {
				vs = append(vs, lversion{txn.Commit(), m, fmt.Sprintf("v%d", len(vs))})
				log = append(log, "commit")
			} else {
				log = append(log, "abandon")
			}
			for _, old := range vs {
				if diff := checkVersion(old, universe, fullKeys, 16); diff != "" {
					t.Fatalf("VERIF-FAIL: trie-random: history %v: version %s: %s", log, old.name, diff)
				}
			}
			cases++
		}
	}
	fmt.Printf("VERIF-CASES=%d\n", cases)
}
