package part

// Bounded probe (C11, C01): part.Tree / Txn against a sorted-map model, exhaustively for all
// short operation sequences over a small key alphabet, with every earlier version (committed
// trees, clones, transactions abandoned half-way) re-checked after every step.

import (
	"fmt"
	"math/rand"
	"testing"
)

var probeAlphabet = []string{"", "a", "ab", "abc", "abd", "b", "\x00", "\xff", "a\xff"}

type version struct {
	tree  Tree[int]
	model vmodel
	name  string
}

// One step: which version to start from (relative index into the live versions), a list of
// mutations, and whether the transaction is committed or abandoned; optionally a clone is
// taken in the middle.
type mutation struct {
	del bool
	key string
}

func applyTxn(base version, muts []mutation, cloneAt int, val *int) (committed version, clone *version, err string) {
	tree := base.tree
	txn := tree.Txn()
	m := base.model.clone()
	for i, mu := range muts {
		if i == cloneAt {
			c := txn.Clone()
			clone = &version{tree: c, model: m.clone(), name: base.name + "+clone"}
		}
		if mu.del {
			old, had := txn.Delete([]byte(mu.key))
			mv, mhad := m[mu.key]
			if had != mhad || (had && old != mv) {
				return version{}, nil, fmt.Sprintf("Delete(%q) = %d,%v want %d,%v", mu.key, old, had, mv, mhad)
			}
			delete(m, mu.key)
		} else {
			*val++
			old, had := txn.Insert([]byte(mu.key), *val)
			mv, mhad := m[mu.key]
			if had != mhad || (had && old != mv) {
				return version{}, nil, fmt.Sprintf("Insert(%q) = %d,%v want %d,%v", mu.key, old, had, mv, mhad)
			}
			m[mu.key] = *val
		}
		if d := checkAgainstModel(txn, m, probeAlphabet); d != "" {
			return version{}, nil, "inside txn after " + fmt.Sprint(muts[:i+1]) + ": " + d
		}
	}
	// Commit without Notify: several transactions are derived from the same tree value here, and
	// notifying twice from one base closes its channels twice (recorded as a known finding and
	// exercised separately in TestVerifProbe_TreeBranchNotify).
	return version{tree: txn.Commit(), model: m, name: base.name + fmt.Sprint(muts)}, clone, ""
}

func TestVerifProbe_TreeExhaustive(t *testing.T) {
	depth := 4
	if verifThorough() {
		depth = 5
	}
	var muts []mutation
	for _, k := range probeAlphabet {
		muts = append(muts, mutation{false, k}, mutation{true, k})
	}
	cases := 0
	for _, opts := range [][]Option{nil, {RootOnlyWatch}} {
		// every sequence of 'depth' single-mutation transactions, each committed; all versions kept
		var rec func(vs []version, d int, val int) bool
		rec = func(vs []version, d int, val int) bool {
			if d == 0 {
				cases++
				return true
			}
			for _, mu := range muts {
				v := val
				nv, _, err := applyTxn(vs[len(vs)-1], []mutation{mu}, -1, &v)
				if err != "" {
					t.Errorf("VERIF-FAIL: %s: %s", vs[len(vs)-1].name+fmt.Sprint(mu), err)
					return false
				}
				next := append(vs[:len(vs):len(vs)], nv)
				for _, old := range next {
					if d := checkAgainstModel(&old.tree, old.model, probeAlphabet); d != "" {
						t.Errorf("VERIF-FAIL: version %s changed after %s: %s", old.name, nv.name, d)
						return false
					}
				}
				if !rec(next, d-1, v) {
					return false
				}
			}
			return true
		}
		root := version{tree: New[int](opts...), model: vmodel{}, name: "new"}
		if !rec([]version{root}, depth, 0) {
			break
		}
	}
	fmt.Printf("VERIF-CASES=%d\n", cases)
}

// Multi-mutation transactions with clones in the middle, abandoned transactions and
// transactions opened on OLD versions (branching histories), seeded random.
func TestVerifProbe_TreeBranching(t *testing.T) {
	n := 3000
	if verifThorough() {
		n = 60000
	}
	rng := rand.New(rand.NewSource(verifSeed()))
	alphabets := [][]string{probeAlphabet, {"a1", "a2", "a3", "b1", "b2", "b3", "c", "a", "b"}}
	cases := 0
	for iter := 0; iter < n; iter++ {
		alpha := alphabets[iter%len(alphabets)]
		var opts []Option
		if iter%3 == 0 {
			opts = []Option{RootOnlyWatch}
		}
		vs := []version{{tree: New[int](opts...), model: vmodel{}, name: "new"}}
		val := 0
		steps := 6 + rng.Intn(10)
		var log []string
		for s := 0; s < steps; s++ {
			base := vs[len(vs)-1]
			if rng.Intn(3) == 0 {
				base = vs[rng.Intn(len(vs))] // branch off an old version
			}
			var muts []mutation
			for i := 0; i <= rng.Intn(3); i++ {
				muts = append(muts, mutation{rng.Intn(3) == 0, alpha[rng.Intn(len(alpha))]})
			}
			cloneAt := -1
			if rng.Intn(4) == 0 {
				cloneAt = rng.Intn(len(muts))
			}
			abandon := rng.Intn(4) == 0
			log = append(log, fmt.Sprintf("%s%v clone@%d abandon=%v", base.name, muts, cloneAt, abandon))
			if abandon {
				// run the mutations on a transaction that is never committed
				tree := base.tree
				txn := tree.Txn()
				for _, mu := range muts {
					if mu.del {
						txn.Delete([]byte(mu.key))
					} else {
						val++
						txn.Insert([]byte(mu.key), val)
					}
				}
			} else {
				nv, clone, err := applyTxn(base, muts, cloneAt, &val)
				if err != "" {
					t.Fatalf("VERIF-FAIL: history %q: %s", log, err)
				}
				nv.name = fmt.Sprintf("v%d", len(vs))
				vs = append(vs, nv)
				if clone != nil {
					clone.name = fmt.Sprintf("v%d(clone)", len(vs))
					vs = append(vs, *clone)
				}
			}
			for _, old := range vs {
				if d := checkAgainstModel(&old.tree, old.model, alpha); d != "" {
					t.Fatalf("VERIF-FAIL: history %q: version %s changed: %s", log, old.name, d)
				}
			}
			cases++
		}
	}
	fmt.Printf("VERIF-CASES=%d\n", cases)
}

// Fan-out: grow a node through every size class (4, 16, 48, 256) and shrink it again, with
// key bytes that include 0x00 and 0xff, in several orders; the model is compared after every
// step and the last removed key is queried explicitly.
func TestVerifProbe_TreeFanout(t *testing.T) {
	rng := rand.New(rand.NewSource(verifSeed()))
	cases := 0
	orders := 6
	if verifThorough() {
		orders = 60
	}
	for _, prefix := range []string{"", "n", "ab"} {
		for _, total := range []int{4, 5, 16, 17, 48, 49, 256} {
			for o := 0; o < orders; o++ {
				// choose 'total' distinct bytes, always including 0x00 and 0xff when possible
				perm := rng.Perm(256)
				bs := []int{0xff, 0x00}
				for _, b := range perm {
					if len(bs) >= total {
						break
					}
					if b != 0xff && b != 0x00 {
						bs = append(bs, b)
					}
				}
				bs = bs[:total]
				if o%2 == 1 {
					rng.Shuffle(len(bs), func(i, j int) { bs[i], bs[j] = bs[j], bs[i] })
				}
				tree := New[int]()
				m := vmodel{}
				queries := []string{prefix, prefix + "\xff", prefix + "\x00"}
				step := func(del bool, b int) {
					k := prefix + string([]byte{byte(b)})
					txn := tree.Txn()
					if del {
						txn.Delete([]byte(k))
						delete(m, k)
					} else {
						txn.Insert([]byte(k), b+1)
						m[k] = b + 1
					}
					tree = txn.CommitAndNotify()
					if d := checkAgainstModel(&tree, m, append(queries, k)); d != "" {
						t.Fatalf("VERIF-FAIL: fanout prefix=%q total=%d order=%d after del=%v byte=%#x: %s", prefix, total, o, del, b, d)
					}
					cases++
				}
				for _, b := range bs {
					step(false, b)
				}
				// delete in a different order; 0xff first in half of the runs
				del := append([]int(nil), bs...)
				if o%3 != 0 {
					rng.Shuffle(len(del), func(i, j int) { del[i], del[j] = del[j], del[i] })
				}
				for _, b := range del {
					step(true, b)
				}
			}
		}
	}
	fmt.Printf("VERIF-CASES=%d\n", cases)
}

// Known finding (C12): notifying two transactions derived from the same Tree value closes the
// base tree's watch channels twice and panics.
func TestVerifProbe_TreeBranchNotify(t *testing.T) {
	defer func() {
		if r := recover(); r != nil {
			t.Errorf("VERIF-FAIL: branch-notify: second CommitAndNotify derived from the same Tree value panicked: %v", r)
		}
		fmt.Printf("VERIF-CASES=1\n")
	}()
	tree := New[int]()
	_, _, t1 := tree.Insert([]byte("a"), 1)
	_, _, t2 := tree.Insert([]byte("b"), 2)
	if t1.Len() != 1 || t2.Len() != 1 {
		t.Errorf("VERIF-FAIL: branch-notify: wrong lengths")
	}
}

// Clones taken inside a transaction: the clone, the continuing transaction and a transaction
// derived from the clone must not influence each other. Exhaustive over bases of <= 2 keys,
// <= 2 mutations before the clone, <= 1 after it, and <= 2 mutations on a transaction opened
// on the clone.
func TestVerifProbe_TreeClone(t *testing.T) {
	alpha := []string{"a", "ab", "abc", "b", ""}
	var muts []mutation
	for _, k := range alpha {
		muts = append(muts, mutation{false, k}, mutation{true, k})
	}
	var seqs1, seqs2 [][]mutation
	seqs1 = append(seqs1, nil)
	for _, a := range muts {
		seqs1 = append(seqs1, []mutation{a})
		seqs2 = append(seqs2, []mutation{a})
		for _, b := range muts {
			seqs2 = append(seqs2, []mutation{a, b})
		}
	}
	cases := 0
	apply := func(txn *Txn[int], m vmodel, ms []mutation, val *int) {
		for _, mu := range ms {
			if mu.del {
				txn.Delete([]byte(mu.key))
				delete(m, mu.key)
			} else {
				*val++
				txn.Insert([]byte(mu.key), *val)
				m[mu.key] = *val
			}
		}
	}
	for b1 := -1; b1 < len(alpha); b1++ {
		for b2 := b1; b2 < len(alpha); b2++ {
			if b1 >= 0 && b2 == b1 {
				continue
			}
			for _, before := range seqs2 {
				for _, after := range seqs1 {
					for _, onClone := range seqs2 {
						if !verifThorough() && (len(onClone) > 1 || b1 >= 0) {
							continue // quick tier: bases of at most one key, one mutation on the clone
						}
						val := 0
						tree := New[int]()
						m0 := vmodel{}
						for _, b := range []int{b1, b2} {
							if b >= 0 {
								val++
								_, _, tree = tree.Insert([]byte(alpha[b]), val)
								m0[alpha[b]] = val
							}
						}
						descr := fmt.Sprintf("base=%v before=%v after=%v onClone=%v", m0.sortedKeys(), before, after, onClone)
						txn := tree.Txn()
						m := m0.clone()
						apply(txn, m, before, &val)
						clone := txn.Clone()
						mClone := m.clone()
						apply(txn, m, after, &val)
						// a transaction derived from the clone
						ctxn := clone.Txn()
						mC2 := mClone.clone()
						apply(ctxn, mC2, onClone, &val)
						if d := checkAgainstModel(&clone, mClone, alpha); d != "" {
							t.Fatalf("VERIF-FAIL: clone: %s: clone changed by a transaction derived from it: %s", descr, d)
						}
						if d := checkAgainstModel(txn, m, alpha); d != "" {
							t.Fatalf("VERIF-FAIL: clone: %s: original transaction changed: %s", descr, d)
						}
						c2 := ctxn.Commit()
						final := txn.Commit()
						for _, chk := range []struct {
							t *Tree[int]
							m vmodel
							n string
						}{{&tree, m0, "base"}, {&clone, mClone, "clone"}, {&c2, mC2, "clone-derived"}, {&final, m, "committed"}} {
							if d := checkAgainstModel(chk.t, chk.m, alpha); d != "" {
								t.Fatalf("VERIF-FAIL: clone: %s: %s tree wrong: %s", descr, chk.n, d)
							}
						}
						cases++
					}
				}
			}
		}
	}
	fmt.Printf("VERIF-CASES=%d\n", cases)
}
