package part

// Bounded probe (C17): part.Map / part.Set against mathematical maps/sets with branching
// histories: every operation is applied to every earlier version, and every version is
// re-checked after every step. Includes the empty / singleton / tree representation switches,
// map transactions that are used again after Commit, FromMap, Union/Difference and the
// JSON / YAML round trip.

import (
	"reflect"
	"encoding/json"
	"fmt"
	"sort"
	"testing"

	"go.yaml.in/yaml/v3"
)

var mapKeys = []string{"", "a", "ab", "b"}

type mapVersion struct {
	m     Map[string, int]
	model map[string]int
	name  string
}

func checkMap(v mapVersion) string {
	if v.m.Len() != len(v.model) {
		return fmt.Sprintf("Len() = %d want %d", v.m.Len(), len(v.model))
	}
	var want []string
	for k := range v.model {
		want = append(want, k)
	}
	sort.Strings(want)
	var got []string
	for k, val := range v.m.All() {
		got = append(got, k)
		if val != v.model[k] {
			return fmt.Sprintf("All() yields %q=%d want %d", k, val, v.model[k])
		}
	}
	if fmt.Sprint(got) != fmt.Sprint(want) {
		return fmt.Sprintf("All() yields %q want %q", got, want)
	}
	for stopAfter := 1; stopAfter <= len(want); stopAfter++ {
		if msg := verifEarlyStop(func(yield func() bool) { v.m.All()(func(string, int) bool { return yield() }) }, stopAfter); msg != "" {
			return fmt.Sprintf("All() with a consumer stopping after %d: %s", stopAfter, msg)
		}
		if msg := verifEarlyStop(func(yield func() bool) { v.m.Prefix("")(func(string, int) bool { return yield() }) }, stopAfter); msg != "" {
			return fmt.Sprintf("Prefix(\"\") with a consumer stopping after %d: %s", stopAfter, msg)
		}
		if msg := verifEarlyStop(func(yield func() bool) { v.m.LowerBound("")(func(string, int) bool { return yield() }) }, stopAfter); msg != "" {
			return fmt.Sprintf("LowerBound(\"\") with a consumer stopping after %d: %s", stopAfter, msg)
		}
	}
	for _, q := range mapKeys {
		val, ok := v.m.Get(q)
		mv, mok := v.model[q]
		if ok != mok || (ok && val != mv) {
			return fmt.Sprintf("Get(%q) = %d,%v want %d,%v", q, val, ok, mv, mok)
		}
		var wantP, gotP, wantL, gotL []string
		for _, k := range want {
			if len(k) >= len(q) && k[:len(q)] == q {
				wantP = append(wantP, k)
			}
			if k >= q {
				wantL = append(wantL, k)
			}
		}
		for k := range v.m.Prefix(q) {
			gotP = append(gotP, k)
		}
		for k := range v.m.LowerBound(q) {
			gotL = append(gotL, k)
		}
		if fmt.Sprint(gotP) != fmt.Sprint(wantP) {
			return fmt.Sprintf("Prefix(%q) yields %q want %q", q, gotP, wantP)
		}
		if fmt.Sprint(gotL) != fmt.Sprint(wantL) {
			return fmt.Sprintf("LowerBound(%q) yields %q want %q", q, gotL, wantL)
		}
	}
	return ""
}

func cloneModel(m map[string]int) map[string]int {
	n := map[string]int{}
	for k, v := range m {
		n[k] = v
	}
	return n
}

func TestVerifProbe_MapBranching(t *testing.T) {
	depth := 3
	if verifThorough() {
		depth = 4
	}
	cases := 0
	val := 0
	// operations: applied to a chosen earlier version, yielding a new version
	type mop struct {
		name  string
		apply func(v mapVersion) mapVersion
	}
	var ops []mop
	for _, k := range mapKeys {
		k := k
		ops = append(ops, mop{"Set(" + k + ")", func(v mapVersion) mapVersion {
			val++
			m := cloneModel(v.model)
			m[k] = val
			return mapVersion{v.m.Set(k, val), m, ""}
		}})
		ops = append(ops, mop{"Delete(" + k + ")", func(v mapVersion) mapVersion {
			m := cloneModel(v.model)
			delete(m, k)
			return mapVersion{v.m.Delete(k), m, ""}
		}})
	}
	for _, k1 := range mapKeys {
		for _, k2 := range mapKeys {
			k1, k2 := k1, k2
			// map transaction: set k1, set k2, commit, then (the transaction is reused) delete k1 and commit again
			ops = append(ops, mop{"Txn{Set " + k1 + ",Set " + k2 + "}", func(v mapVersion) mapVersion {
				txn := v.m.Txn()
				m := cloneModel(v.model)
				val++
				txn.Set(k1, val)
				m[k1] = val
				val++
				txn.Set(k2, val)
				m[k2] = val
				return mapVersion{txn.Commit(), m, ""}
			}})
			ops = append(ops, mop{"FromMap{" + k1 + "," + k2 + "}", func(v mapVersion) mapVersion {
				m := cloneModel(v.model)
				hm := map[string]int{}
				val++
				hm[k1] = val
				m[k1] = val
				val++
				hm[k2] = val
				m[k2] = val
				return mapVersion{FromMap(v.m, hm), m, ""}
			}})
		}
	}
	var rec func(vs []mapVersion, d int) bool
	rec = func(vs []mapVersion, d int) bool {
		if d == 0 {
			cases++
			return true
		}
		for bi := range vs {
			if len(vs) > 2 && bi < len(vs)-2 {
				continue // branch off one of the two most recent versions
			}
			for _, o := range ops {
				nv := o.apply(vs[bi])
				nv.name = fmt.Sprintf("%s.%s", vs[bi].name, o.name)
				next := append(vs[:len(vs):len(vs)], nv)
				for _, old := range next {
					if diff := checkMap(old); diff != "" {
						t.Errorf("VERIF-FAIL: map: after %s: version %s: %s", nv.name, old.name, diff)
						return false
					}
				}
				if !rec(next, d-1) {
					return false
				}
			}
		}
		return true
	}
	rec([]mapVersion{{Map[string, int]{}, map[string]int{}, "empty"}}, depth)
	fmt.Printf("VERIF-CASES=%d\n", cases)
}

// A map transaction stays usable after Commit, and the committed maps are independent of it
// and of each other.
func TestVerifProbe_MapTxnReuse(t *testing.T) {
	cases := 0
	for _, k1 := range mapKeys {
		for _, k2 := range mapKeys {
			for _, k3 := range mapKeys {
				for _, k4 := range mapKeys {
					var m Map[string, int]
					txn := m.Txn()
					model := map[string]int{}
					txn.Set(k1, 1)
					model[k1] = 1
					txn.Set(k2, 2)
					model[k2] = 2
					m1 := mapVersion{txn.Commit(), cloneModel(model), "m1"}
					m2 := mapVersion{m1.m.Set(k3, 3), cloneModel(model), "m1.Set"}
					m2.model[k3] = 3
					txn.Set(k4, 4)
					model[k4] = 4
					if txn.Delete(k1) != true {
						t.Fatalf("VERIF-FAIL: maptxn: Delete(%q) in reused transaction reported not found", k1)
					}
					delete(model, k1)
					m3 := mapVersion{txn.Commit(), cloneModel(model), "m3"}
					for _, v := range []mapVersion{m1, m2, m3} {
						if d := checkMap(v); d != "" {
							t.Fatalf("VERIF-FAIL: maptxn: keys %q %q %q %q: %s: %s", k1, k2, k3, k4, v.name, d)
						}
					}
					cases++
				}
			}
		}
	}
	fmt.Printf("VERIF-CASES=%d\n", cases)
}

func TestVerifProbe_SetAndRoundTrip(t *testing.T) {
	cases := 0
	// all subsets of the alphabet as sets; Union / Difference / Equal / Has / Len / order
	for a := 0; a < 1<<len(mapKeys); a++ {
		for b := 0; b < 1<<len(mapKeys); b++ {
			var sa, sb Set[string]
			ma, mb := map[string]bool{}, map[string]bool{}
			for i, k := range mapKeys {
				if a&(1<<i) != 0 {
					sa = sa.Set(k)
					ma[k] = true
				}
				if b&(1<<i) != 0 {
					sb = sb.Set(k)
					mb[k] = true
				}
			}
			u, d := sa.Union(sb), sa.Difference(sb)
			for _, k := range mapKeys {
				if u.Has(k) != (ma[k] || mb[k]) {
					t.Fatalf("VERIF-FAIL: set: Union(%v,%v).Has(%q) wrong", ma, mb, k)
				}
				if d.Has(k) != (ma[k] && !mb[k]) {
					t.Fatalf("VERIF-FAIL: set: Difference(%v,%v).Has(%q) wrong", ma, mb, k)
				}
				if sa.Has(k) != ma[k] || sb.Has(k) != mb[k] {
					t.Fatalf("VERIF-FAIL: set: operand changed by Union/Difference (%v,%v)", ma, mb)
				}
			}
			if sa.Equal(sb) != (a == b) {
				t.Fatalf("VERIF-FAIL: set: Equal(%v,%v) = %v", ma, mb, sa.Equal(sb))
			}
			if sa.Len() != len(ma) {
				t.Fatalf("VERIF-FAIL: set: Len")
			}
			var got []string
			for k := range sa.All() {
				got = append(got, k)
			}
			if !sort.StringsAreSorted(got) || len(got) != len(ma) {
				t.Fatalf("VERIF-FAIL: set: All() of %v yields %q", ma, got)
			}
			// a consumer that stops early sees a prefix of the iteration and is not called again
			for stopAfter := 1; stopAfter <= len(got); stopAfter++ {
				if msg := verifEarlyStop(func(yield func() bool) { sa.All()(func(string) bool { return yield() }) }, stopAfter); msg != "" {
					t.Fatalf("VERIF-FAIL: set: All() of %v with a consumer stopping after %d: %s", ma, stopAfter, msg)
				}
			}
			// deleting every element one by one
			s := sa
			for _, k := range mapKeys {
				s2 := s.Delete(k)
				if s2.Has(k) || (s.Has(k) && s2.Len() != s.Len()-1) {
					t.Fatalf("VERIF-FAIL: set: Delete(%q) from %v", k, ma)
				}
				s = s2
			}
			cases++
		}
		// JSON / YAML round trips of the set and of a map with these keys
		var s Set[string]
		var m Map[string, int]
		for i, k := range mapKeys {
			if a&(1<<i) != 0 {
				s = s.Set(k)
				m = m.Set(k, i+1)
			}
		}
		js, err := json.Marshal(s)
		var s2 Set[string]
		if err != nil || json.Unmarshal(js, &s2) != nil || !s.Equal(s2) {
			t.Fatalf("VERIF-FAIL: roundtrip: set JSON %s", js)
		}
		ys, err := yaml.Marshal(s)
		var s3 Set[string]
		if err != nil || yaml.Unmarshal(ys, &s3) != nil || !s.Equal(s3) {
			t.Fatalf("VERIF-FAIL: roundtrip: set YAML %s", ys)
		}
		jm, err := json.Marshal(m)
		var m2 Map[string, int]
		if err != nil || json.Unmarshal(jm, &m2) != nil || !m.SlowEqual(m2) || !m.EqualKeys(m2) {
			t.Fatalf("VERIF-FAIL: roundtrip: map JSON %s", jm)
		}
		ym, err := yaml.Marshal(m)
		var m3 Map[string, int]
		if err != nil || yaml.Unmarshal(ym, &m3) != nil || !m.SlowEqual(m3) {
			t.Fatalf("VERIF-FAIL: roundtrip: map YAML %s", ym)
		}
		// decoding into a receiver that already holds something else: the result equals the
		// encoded value, nothing of the receiver's earlier content survives
		for b := 0; b < 1<<len(mapKeys); b++ {
			var us1, us2 Set[string]
			var um1, um2 Map[string, int]
			for i, k := range mapKeys {
				if b&(1<<i) != 0 {
					us1, us2 = us1.Set(k), us2.Set(k)
					um1, um2 = um1.Set(k, 100+i), um2.Set(k, 100+i)
				}
			}
			if json.Unmarshal(js, &us1) != nil || !s.Equal(us1) || us1.Len() != s.Len() {
				t.Fatalf("VERIF-FAIL: roundtrip: set JSON %s decoded into a set holding subset %b gives %v", js, b, us1)
			}
			if yaml.Unmarshal(ys, &us2) != nil || !s.Equal(us2) || us2.Len() != s.Len() {
				t.Fatalf("VERIF-FAIL: roundtrip: set YAML %s decoded into a set holding subset %b gives %v", ys, b, us2)
			}
			if json.Unmarshal(jm, &um1) != nil || !m.SlowEqual(um1) || um1.Len() != m.Len() {
				t.Fatalf("VERIF-FAIL: roundtrip: map JSON %s decoded into a map holding subset %b gives %v", jm, b, um1)
			}
			if yaml.Unmarshal(ym, &um2) != nil || !m.SlowEqual(um2) || um2.Len() != m.Len() {
				t.Fatalf("VERIF-FAIL: roundtrip: map YAML %s decoded into a map holding subset %b gives %v", ym, b, um2)
			}
			cases++
		}
		// values with slices, maps, pointers and omitted fields ("any value"): decoding must not
		// let one entry share storage with another
		var mr Map[string, verifRTVal]
		want := map[string]verifRTVal{}
		for i, k := range mapKeys {
			if a&(1<<i) != 0 {
				v := verifMakeRTVal(i)
				mr = mr.Set(k, v)
				want[k] = v
			}
		}
		jr, err := json.Marshal(mr)
		var mr2 Map[string, verifRTVal]
		if err != nil || json.Unmarshal(jr, &mr2) != nil {
			t.Fatalf("VERIF-FAIL: roundtrip: struct map JSON %s", jr)
		}
		yr, err := yaml.Marshal(mr)
		var mr3 Map[string, verifRTVal]
		if err != nil || yaml.Unmarshal(yr, &mr3) != nil {
			t.Fatalf("VERIF-FAIL: roundtrip: struct map YAML %s", yr)
		}
		for name, got := range map[string]Map[string, verifRTVal]{"JSON": mr2, "YAML": mr3} {
			if got.Len() != len(want) {
				t.Fatalf("VERIF-FAIL: roundtrip: struct map %s: %d entries, want %d", name, got.Len(), len(want))
			}
			for k, w := range want {
				g, ok := got.Get(k)
				if !ok || !reflect.DeepEqual(verifNormRT(g), verifNormRT(w)) {
					t.Fatalf("VERIF-FAIL: roundtrip: struct map %s: key %q decoded as %+v, encoded %+v (document %s)", name, k, g, w, jr)
				}
			}
		}
		cases++
	}
	fmt.Printf("VERIF-CASES=%d\n", cases)
}

// verifRTVal is a value type whose decoding goes wrong if the decoder reuses storage.
type verifRTVal struct {
	L []int          `json:"l,omitempty" yaml:"l,omitempty"`
	M map[string]int `json:"m,omitempty" yaml:"m,omitempty"`
	P *int           `json:"p,omitempty" yaml:"p,omitempty"`
	S string         `json:"s,omitempty" yaml:"s,omitempty"`
}

func verifMakeRTVal(i int) verifRTVal {
	var v verifRTVal
	// lengths shrink with i, some fields are present only for some entries
	for j := 0; j < 3-i%3; j++ {
		v.L = append(v.L, 10*i+j)
	}
	if i%2 == 0 {
		v.M = map[string]int{fmt.Sprintf("k%d", i): i}
		v.S = fmt.Sprintf("s%d", i)
	} else {
		x := i
		v.P = &x
	}
	return v
}

func verifNormRT(v verifRTVal) verifRTVal {
	if len(v.L) == 0 {
		v.L = nil
	}
	if len(v.M) == 0 {
		v.M = nil
	}
	return v
}

// verifEarlyStop drives an iteration with a consumer that returns false at its stopAfter-th call
// and reports a panic or any call made after that.
func verifEarlyStop(iterate func(yield func() bool), stopAfter int) (msg string) {
	calls := 0
	defer func() {
		if r := recover(); r != nil {
			msg = fmt.Sprintf("panic: %v", r)
		}
	}()
	iterate(func() bool {
		calls++
		return calls < stopAfter
	})
	if calls != stopAfter {
		return fmt.Sprintf("consumer called %d times", calls)
	}
	return ""
}

// Round trips of EVERY REPRESENTATION of a value (C17: "the JSON/YAML encoding of any value
// decodes to an equal value"): the same abstract set / map is reached by different routes
// (constructed directly, shrunk from a superset by Delete, by Difference, by a transaction, by
// Union with the empty set, decoded from JSON or YAML) - which leave different representations
// behind (no tree, an empty tree, a singleton, a tree) - over several element types, and each
// is encoded and decoded alone and as a struct field.
func verifSetReps[T any](universe []T, mask int) (reps map[string]Set[T]) {
	var members, others []T
	for i, v := range universe {
		if mask&(1<<i) != 0 {
			members = append(members, v)
		} else {
			others = append(others, v)
		}
	}
	r0 := NewSet(members...)
	reps = map[string]Set[T]{"direct": r0}
	shrunk := NewSet(universe...)
	for _, v := range others {
		shrunk = shrunk.Delete(v)
	}
	reps["superset-minus-deletes"] = shrunk
	reps["superset-difference"] = NewSet(universe...).Difference(NewSet(others...))
	reps["difference-of-itself-union-direct"] = r0.Difference(r0).Union(r0)
	reps["empty-union-direct"] = Set[T]{}.Union(r0)
	reps["direct-union-empty"] = r0.Union(Set[T]{})
	grown := Set[T]{}
	for _, v := range members {
		grown = grown.Set(v)
	}
	reps["grown-by-set"] = grown
	if js, err := json.Marshal(r0); err == nil {
		var d Set[T]
		if json.Unmarshal(js, &d) == nil {
			reps["decoded-from-json"] = d
		}
	}
	if ys, err := yaml.Marshal(r0); err == nil {
		var d Set[T]
		if yaml.Unmarshal(ys, &d) == nil {
			reps["decoded-from-yaml"] = d
		}
	}
	return
}

func verifSetRoundTrips[T any](t *testing.T, tname string, universe []T) int {
	type holder struct {
		A int    `json:"a" yaml:"a"`
		S Set[T] `json:"s" yaml:"s"`
		B string `json:"b" yaml:"b"`
	}
	cases := 0
	for mask := 0; mask < 1<<len(universe); mask++ {
		reps := verifSetReps(universe, mask)
		if len(reps) < 9 {
			t.Fatalf("VERIF-FAIL: roundtrip-reps: Set[%s] subset %b: direct set does not encode/decode at all", tname, mask)
		}
		want := reps["direct"]
		for name, s := range reps {
			if !s.Equal(want) || !want.Equal(s) || s.Len() != want.Len() {
				t.Fatalf("VERIF-FAIL: roundtrip-reps: Set[%s] subset %b: representation %q is not Equal to the direct one", tname, mask, name)
			}
			js, err := json.Marshal(s)
			var d1 Set[T]
			if err != nil || json.Unmarshal(js, &d1) != nil || !d1.Equal(want) || d1.Len() != want.Len() {
				t.Fatalf("VERIF-FAIL: roundtrip-reps: Set[%s] subset %b representation %q: JSON %s does not decode to an equal set (%v)", tname, mask, name, js, err)
			}
			ys, err := yaml.Marshal(s)
			var d2 Set[T]
			if err != nil || yaml.Unmarshal(ys, &d2) != nil || !d2.Equal(want) || d2.Len() != want.Len() {
				t.Fatalf("VERIF-FAIL: roundtrip-reps: Set[%s] subset %b representation %q: YAML %q does not decode to an equal set (%v)", tname, mask, name, ys, err)
			}
			hj, err := json.Marshal(holder{A: 1, S: s, B: "x"})
			var h1 holder
			if err != nil || json.Unmarshal(hj, &h1) != nil || !h1.S.Equal(want) || h1.A != 1 || h1.B != "x" {
				t.Fatalf("VERIF-FAIL: roundtrip-reps: Set[%s] subset %b representation %q as a struct field: JSON %s (%v)", tname, mask, name, hj, err)
			}
			hy, err := yaml.Marshal(holder{A: 1, S: s, B: "x"})
			var h2 holder
			if err != nil || yaml.Unmarshal(hy, &h2) != nil || !h2.S.Equal(want) || h2.A != 1 || h2.B != "x" {
				t.Fatalf("VERIF-FAIL: roundtrip-reps: Set[%s] subset %b representation %q as a struct field: YAML %q (%v)", tname, mask, name, hy, err)
			}
			cases++
		}
	}
	return cases
}

func verifMapRoundTrips[K comparable](t *testing.T, tname string, universe []K) int {
	cases := 0
	for mask := 0; mask < 1<<len(universe); mask++ {
		gm := map[K]int{}
		var direct Map[K, int]
		super := Map[K, int]{}
		for i, k := range universe {
			super = super.Set(k, 100+i)
		}
		shrunk := super
		txn := super.Txn()
		for i, k := range universe {
			if mask&(1<<i) != 0 {
				gm[k] = i + 1
				direct = direct.Set(k, i+1)
				shrunk = shrunk.Set(k, i+1)
				txn.Set(k, i+1)
			} else {
				shrunk = shrunk.Delete(k)
				txn.Delete(k)
			}
		}
		reps := map[string]Map[K, int]{"direct": direct, "superset-minus-deletes": shrunk, "transaction": txn.Commit(), "from-go-map": FromMap(Map[K, int]{}, gm), "from-go-map-over-direct": FromMap(direct, gm)}
		for name, m := range reps {
			if !m.SlowEqual(direct) || !m.EqualKeys(direct) || m.Len() != len(gm) {
				t.Fatalf("VERIF-FAIL: roundtrip-reps: Map[%s] subset %b: representation %q differs from the direct one", tname, mask, name)
			}
			js, err := json.Marshal(m)
			var d1 Map[K, int]
			if err != nil || json.Unmarshal(js, &d1) != nil || !d1.SlowEqual(direct) || d1.Len() != len(gm) {
				t.Fatalf("VERIF-FAIL: roundtrip-reps: Map[%s] subset %b representation %q: JSON %s does not decode to an equal map (%v)", tname, mask, name, js, err)
			}
			ys, err := yaml.Marshal(m)
			var d2 Map[K, int]
			if err != nil || yaml.Unmarshal(ys, &d2) != nil || !d2.SlowEqual(direct) || d2.Len() != len(gm) {
				t.Fatalf("VERIF-FAIL: roundtrip-reps: Map[%s] subset %b representation %q: YAML %q does not decode to an equal map (%v)", tname, mask, name, ys, err)
			}
			for k, v := range gm {
				if g, ok := d1.Get(k); !ok || g != v {
					t.Fatalf("VERIF-FAIL: roundtrip-reps: Map[%s] subset %b representation %q: JSON %s loses key %v", tname, mask, name, js, k)
				}
			}
			cases++
		}
	}
	return cases
}

func TestVerifProbe_RoundTripRepresentations(t *testing.T) {
	cases := 0
	cases += verifSetRoundTrips(t, "string", []string{"", "a", "ab", "b\x00"})
	cases += verifSetRoundTrips(t, "byte", []byte{0x00, 'a', 0x80, 0xff})
	cases += verifSetRoundTrips(t, "uint64", []uint64{0, 1, 256, 1 << 63})
	cases += verifSetRoundTrips(t, "int32", []int32{-1, 0, 1, 1 << 30})
	cases += verifSetRoundTrips(t, "bool", []bool{false, true})
	cases += verifSetRoundTrips(t, "rune", []rune{0, 'a', 0x20ac, 0x10ffff})
	cases += verifMapRoundTrips(t, "string", []string{"", "a", "ab", "b\x00"})
	cases += verifMapRoundTrips(t, "uint64", []uint64{0, 1, 256, 1 << 63})
	cases += verifMapRoundTrips(t, "byte", []byte{0x00, 'a', 0x80, 0xff})
	fmt.Printf("VERIF-CASES=%d\n", cases)
}
