package part

// Bounded probe (C12, C06): watch channels of part.Tree, exhaustively over all base trees of
// up to 4 keys from a 7-key alphabet, all watched keys/prefixes (present or absent) and all
// transactions of up to 2 operations, in both watch modes.

import (
	"bytes"
	"fmt"
	"testing"
)

var watchAlphabet = []string{"", "a", "ab", "abc", "abd", "abe", "x"}

func TestVerifProbe_WatchExhaustive(t *testing.T) {
	cases := 0
	type op struct {
		del bool
		key string
	}
	var ops []op
	for _, k := range watchAlphabet {
		ops = append(ops, op{false, k}, op{true, k})
	}
	var txns [][]op
	txns = append(txns, nil)
	for _, a := range ops {
		txns = append(txns, []op{a})
		for _, b := range ops {
			txns = append(txns, []op{a, b})
		}
	}
	maxBase := 4
	for mode := 0; mode < 2; mode++ {
		for mask := 0; mask < 1<<len(watchAlphabet); mask++ {
			n := 0
			for i := range watchAlphabet {
				if mask&(1<<i) != 0 {
					n++
				}
			}
			if n > maxBase {
				continue
			}
			for _, txnOps := range txns {
				for _, abandon := range []bool{false, true} {
					var opts []Option
					if mode == 1 {
						opts = []Option{RootOnlyWatch}
					}
					tree := New[int](opts...)
					present := map[string]bool{}
					for i, k := range watchAlphabet {
						if mask&(1<<i) != 0 {
							_, _, tree = tree.Insert([]byte(k), i)
							present[k] = true
						}
					}
					descr := fmt.Sprintf("mode=%d base=%v txn=%v abandon=%v", mode, keysOf(present), txnOps, abandon)
					// hand out watches from the committed tree
					rootW := tree.RootWatch()
					getW := map[string]<-chan struct{}{}
					prefW := map[string]<-chan struct{}{}
					for _, k := range watchAlphabet {
						_, w, _ := tree.Get([]byte(k))
						getW[k] = w
						_, pw := tree.Prefix([]byte(k))
						prefW[k] = pw
					}
					check := func(when string, wantOpen bool) bool {
						if isClosed(rootW) && wantOpen {
							t.Errorf("VERIF-FAIL: %s: root watch closed %s", descr, when)
							return false
						}
						for _, k := range watchAlphabet {
							if wantOpen && (isClosed(getW[k]) || isClosed(prefW[k])) {
								t.Errorf("VERIF-FAIL: %s: watch of %q closed %s", descr, k, when)
								return false
							}
						}
						return true
					}
					if !check("when handed out", true) {
						return
					}
					txn := tree.Txn()
					changed := map[string]bool{}
					cur := map[string]bool{}
					for k := range present {
						cur[k] = true
					}
					var iw <-chan struct{}
					var iwKey string
					for i, o := range txnOps {
						if o.del {
							if _, had := txn.Delete([]byte(o.key)); had {
								changed[o.key] = true
							}
							delete(cur, o.key)
						} else {
							_, _, w := txn.InsertWatch([]byte(o.key), 100+i)
							changed[o.key] = true
							cur[o.key] = true
							iw, iwKey = w, o.key
						}
					}
					if !check("before Notify", true) {
						return
					}
					if abandon {
						if !check("by an abandoned transaction", true) {
							return
						}
						cases++
						continue
					}
					newTree := txn.CommitAndNotify()
					anyChange := len(changed) > 0
					if isClosed(rootW) != anyChange {
						t.Errorf("VERIF-FAIL: %s: root watch closed=%v but changed=%v", descr, isClosed(rootW), anyChange)
						return
					}
					for _, k := range watchAlphabet {
						if changed[k] && !isClosed(getW[k]) {
							t.Errorf("VERIF-FAIL: %s: Get(%q) watch not closed although the key changed", descr, k)
							return
						}
						for c := range changed {
							if bytes.HasPrefix([]byte(c), []byte(k)) && !isClosed(prefW[k]) {
								t.Errorf("VERIF-FAIL: %s: Prefix(%q) watch not closed although %q changed", descr, k, c)
								return
							}
						}
					}
					// fresh watches of the new tree are open
					if isClosed(newTree.RootWatch()) {
						t.Errorf("VERIF-FAIL: %s: new root watch already closed", descr)
						return
					}
					for _, k := range watchAlphabet {
						_, w, _ := newTree.Get([]byte(k))
						_, pw := newTree.Prefix([]byte(k))
						if isClosed(w) || isClosed(pw) {
							t.Errorf("VERIF-FAIL: %s: watch of %q handed out closed by the new tree", descr, k)
							return
						}
					}
					// the InsertWatch channel closes when that key is next changed
					if iw != nil && cur[iwKey] {
						// per-node mode: the channel belongs to the new leaf and is still open; in root-only
						// mode it is the root channel of the tree the transaction started from, which this
						// very commit closes (coarser, but not before the change is published).
						if mode == 0 && isClosed(iw) {
							t.Errorf("VERIF-FAIL: %s: InsertWatch(%q) channel closed before the key changed again", descr, iwKey)
							return
						}
						_, _, t3 := newTree.Insert([]byte(iwKey), 999)
						_ = t3
						if !isClosed(iw) {
							t.Errorf("VERIF-FAIL: %s: InsertWatch(%q) channel not closed by the next change of the key", descr, iwKey)
							return
						}
					}
					cases++
				}
			}
		}
	}
	fmt.Printf("VERIF-CASES=%d\n", cases)
}

func keysOf(m map[string]bool) []string {
	var ks []string
	for _, k := range watchAlphabet {
		if m[k] {
			ks = append(ks, k)
		}
	}
	return ks
}
