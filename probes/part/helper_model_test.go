package part

// Helpers shared by the bounded probes of /verif (injected with go test -overlay).

import (
	"bytes"
	"fmt"
	"os"
	"sort"
	"strconv"
)

type vmodel map[string]int

func (m vmodel) clone() vmodel {
	n := make(vmodel, len(m))
	for k, v := range m {
		n[k] = v
	}
	return n
}

func (m vmodel) sortedKeys() []string {
	ks := make([]string, 0, len(m))
	for k := range m {
		ks = append(ks, k)
	}
	sort.Strings(ks)
	return ks
}

func verifThorough() bool { return os.Getenv("VERIF_TIER") == "thorough" }

func verifSeed() int64 {
	s, err := strconv.ParseInt(os.Getenv("VERIF_SEED"), 10, 64)
	if err != nil {
		return 1
	}
	return s
}

type treeReader interface {
	Len() int
	Get(key []byte) (int, <-chan struct{}, bool)
	Prefix(prefix []byte) (Iterator[int], <-chan struct{})
	LowerBound(key []byte) Iterator[int]
	Iterator() Iterator[int]
}

func collect(it Iterator[int]) (keys []string, vals []int) {
	for k, v := range it.All {
		keys = append(keys, string(k))
		vals = append(vals, v)
	}
	return
}

// checkAgainstModel compares every query of t with the model; queries lists the keys used
// for Get/Prefix/LowerBound. Returns a description of the first difference, or "".
func checkAgainstModel(t treeReader, m vmodel, queries []string) string {
	if t.Len() != len(m) {
		return fmt.Sprintf("Len() = %d, model has %d", t.Len(), len(m))
	}
	want := m.sortedKeys()
	gotK, gotV := collect(t.Iterator())
	if len(gotK) != len(want) {
		return fmt.Sprintf("iteration yields %q, want %q", gotK, want)
	}
	for i := range want {
		if gotK[i] != want[i] || gotV[i] != m[want[i]] {
			return fmt.Sprintf("iteration yields %q %v, want %q (values %v)", gotK, gotV, want, m)
		}
	}
	for _, q := range queries {
		v, _, ok := t.Get([]byte(q))
		mv, mok := m[q]
		if ok != mok || (ok && v != mv) {
			return fmt.Sprintf("Get(%q) = %d,%v want %d,%v", q, v, ok, mv, mok)
		}
		// Prefix
		var wantP []string
		for _, k := range want {
			if bytes.HasPrefix([]byte(k), []byte(q)) {
				wantP = append(wantP, k)
			}
		}
		it, _ := t.Prefix([]byte(q))
		gotP, gotPV := collect(it)
		if fmt.Sprint(gotP) != fmt.Sprint(wantP) {
			return fmt.Sprintf("Prefix(%q) yields %q, want %q", q, gotP, wantP)
		}
		for i, k := range gotP {
			if gotPV[i] != m[k] {
				return fmt.Sprintf("Prefix(%q) yields value %d for %q, want %d", q, gotPV[i], k, m[k])
			}
		}
		// LowerBound
		var wantL []string
		for _, k := range want {
			if k >= q {
				wantL = append(wantL, k)
			}
		}
		gotL, _ := collect(t.LowerBound([]byte(q)))
		if fmt.Sprint(gotL) != fmt.Sprint(wantL) {
			return fmt.Sprintf("LowerBound(%q) yields %q, want %q", q, gotL, wantL)
		}
	}
	return ""
}

func isClosed(ch <-chan struct{}) bool {
	select {
	case <-ch:
		return true
	default:
		return false
	}
}
