#!/usr/bin/env python3
"""Generates /verif/MANIFEST.json from tools/manifest_src.json (claimed checks) and
properties.jsonl (everything not claimed goes to not_applicable with its reason)."""
import json, subprocess
src = json.load(open('/verif/tools/manifest_src.json'))
props = [json.loads(l) for l in open('/verif/properties.jsonl')]
hooks = subprocess.run(['git','-C','/repo','log','--format=%h %s','--','zz_verif_contracts.go','zz_verif_ghost.go','*/zz_verif_contracts.go','*/zz_verif_ghost.go'],capture_output=True,text=True).stdout.strip().split('\n')
hook_commits = [l.split()[0] for l in hooks if l.strip()]
m = {
 "version": 1,
 "setup_cmd": "cd /verif/engine && GOFLAGS=-mod=mod GOPROXY=off go build -o /verif/bin/govc ./cmd/govc",
 "hooks": {
  "guard": "verif",
  "enable": "go build -tags verif ./...  (contracts live in zz_verif_contracts.go / ghost lemmas in zz_verif_ghost.go of each package, all behind //go:build verif; govc loads /repo with -tags=verif)",
  "baseline_off_cmd": "cd /repo && GOFLAGS=-mod=mod GOPROXY=off go test -vet=off -count=1 -timeout 25m ./...",
  "source_commits": hook_commits,
  "add_only": True
 },
 "engines": [{"name": "govc", "path": "/verif/engine", "serves_properties": sorted(src['checks'].keys()),
   "kind_free_text": "contract-based deductive verifier for Go written for this task: go/packages + go/ssa (naive form) -> symbolic weakest-precondition style VC generation over a component heap with loop invariants and modular call contracts -> SMT-LIB -> z3 5.1.0 / cvc5 1.0 / z3 4.8.12; contracts are //@ comments in build-tag-guarded files next to the code; bounded probes (go test -overlay) stand in only where stated"}],
 "checks": [],
 "notes": src.get('notes',''),
 "not_applicable": []
}
for p in props:
    pid = p['id']
    if pid in src['checks']:
        c = src['checks'][pid]
        m['checks'].append({
          "property_id": pid,
          "quick_cmd": f"/verif/bin/govc check --property {pid} --tier quick",
          "thorough_cmd": f"/verif/bin/govc check --property {pid} --tier thorough",
          "evidence_file": f"/verif/evidence/{pid}.json",
          "replay_cmd_template": "cat {path}",
          "engine": "govc",
          "level_claimed": {"category": c['category'], "text": c['text'], "design_ref": c.get('design_ref','DESIGN.md section 6 '+pid)},
          "level_note": c['note'],
          "technique": c['technique'],
        })
    else:
        m['not_applicable'].append({"property_id": pid, "reason": src['not_applicable'].get(pid, "check not built yet (work in progress; see DESIGN.md section 9)")})
json.dump(m, open('/verif/MANIFEST.json','w'), indent=1)
print(len(m['checks']),'checks,',len(m['not_applicable']),'not applicable')
