#!/usr/bin/env python3
"""Evaluate a seeded change delivered under $SEEDROOT/out/<pid> (default /tmp/seed2): confirm the demonstration
(fails with the change, passes without) in the agent's scratch worktree, then apply the patch to
/repo, run the property's check (no evidence written), and restore /repo. Usage: seed_eval.py Cxx [more props]"""
import json, os, subprocess, sys
def sh(cmd, cwd=None, timeout=1500):
    return subprocess.run(cmd, shell=True, capture_output=True, text=True, cwd=cwd, timeout=timeout)
ROOT = os.environ.get('SEEDROOT', '/tmp/seed2')
pid = sys.argv[1]
props = sys.argv[2:] or [pid]
out = f'{ROOT}/out/{pid}'
wt = f'{ROOT}/{pid}'
meta = json.load(open(out + '/meta.json'))
print('summary:', meta['summary'][:400])
env = 'GOFLAGS=-mod=mod GOPROXY=off '
d = meta.get('demo_pkg_dir', '.') or '.'
# confirm demo
r = sh(f'git -C {wt} status --short')
print('worktree status:', r.stdout.strip().replace('\n', ' | '))
run = f"{env} go test -vet=off -count=1 -timeout 300s -run 'Seed[2-9]|seed[2-9]' ./{d}/"
r1 = sh(run, cwd=wt)
print('demo with change   :', 'FAIL' if r1.returncode != 0 else 'pass')
sh(f'git -C {wt} apply -R {out}/patch.diff')
r2 = sh(run, cwd=wt)
print('demo without change:', 'FAIL' if r2.returncode != 0 else 'pass', '' if r2.returncode == 0 else r2.stdout[-400:])
sh(f'git -C {wt} apply {out}/patch.diff')
# run checks on /repo with the patch
r = sh(f'git -C /repo status --short')
if r.stdout.strip():
    print('REPO NOT CLEAN, abort:', r.stdout); sys.exit(2)
r = sh(f'git -C /repo apply {out}/patch.diff')
if r.returncode != 0:
    print('patch does not apply to /repo:', r.stderr); sys.exit(2)
try:
    for p in props:
        r = sh(f'/verif/bin/govc check --property {p} --no-evidence')
        viol = [l for l in r.stdout.split('\n') if l.startswith('VIOLATION')]
        print(f'check {p}: exit={r.returncode}', 'CAUGHT' if r.returncode == 1 and viol else 'MISSED')
        for v in viol[:6]:
            print('   ', v[:260])
        if not viol:
            print('   ', r.stdout.strip().split('\n')[-1][:200])
finally:
    sh('git -C /repo checkout -- .')
    print('repo restored:', sh('git -C /repo status --short').stdout.strip() or 'clean')
