#!/usr/bin/env python3
"""Must-fail corpus: applies each mutant / seeded change to a scratch worktree of /repo
(outside /repo and /verif, removed afterwards) and checks that the named property check
reports a violation (exit 1). Usage: selftest.py [name-substring ...]
With SELFTEST_LANE=k/n only every n-th entry (offset k) is run, so that several lanes can share the machine."""
import json, os, subprocess, sys, shutil, glob
SCR = '/tmp/verif_selftest_wt_%d' % os.getpid()  # one scratch worktree per run, so runs can overlap
def sh(cmd, **kw):
    return subprocess.run(cmd, shell=True, capture_output=True, text=True, **kw)
def main():
    want = sys.argv[1:]
    table = json.load(open('/verif/selftest/corpus.json'))
    sh(f'git -C /repo worktree remove --force {SCR}'); shutil.rmtree(SCR, ignore_errors=True)
    r = sh(f'git -C /repo worktree add --detach {SCR} HEAD')
    if r.returncode != 0:
        print(r.stderr); sys.exit(2)
    # uncommitted contract files of the working tree are part of the machinery under test; they
    # are snapshotted once so that editing /repo while the corpus runs does not disturb it
    SNAP = SCR + '_contracts'
    shutil.rmtree(SNAP, ignore_errors=True)
    contract_files = []
    for f in glob.glob('/repo/zz_verif_*.go') + glob.glob('/repo/*/zz_verif_*.go'):
        rel = f[len('/repo/'):]
        os.makedirs(os.path.dirname(os.path.join(SNAP, rel)) or SNAP, exist_ok=True)
        shutil.copy(f, os.path.join(SNAP, rel))
        contract_files.append(rel)
        shutil.copy(f, os.path.join(SCR, rel))
    ok = True
    results = []
    lane = os.environ.get('SELFTEST_LANE', '')
    lk, ln = (int(x) for x in lane.split('/')) if lane else (0, 1)
    try:
        for idx, ent in enumerate(table):
            name = ent['name']
            if want and not any(w in name for w in want):
                continue
            if idx % ln != lk:
                continue
            sh(f'git -C {SCR} checkout -- . ')
            for rel in contract_files:
                shutil.copy(os.path.join(SNAP, rel), os.path.join(SCR, rel))
            r = sh(f'git -C {SCR} apply {ent["patch"]}')
            if r.returncode != 0:
                print(f'{name}: PATCH DOES NOT APPLY: {r.stderr.strip()}'); ok = False; continue
            b = sh('GOFLAGS=-mod=mod GOPROXY=off go build ./...', cwd=SCR)
            if b.returncode != 0:
                print(f'{name}: mutant does not build: {b.stderr[:300]}'); ok = False; continue
            for prop in ent['properties']:
                env = dict(os.environ, VERIF_ROOT='/verif', VERIF_NO_EVIDENCE='1')
                r = subprocess.run(['/verif/bin/govc', 'check', '--property', prop, '--repo', SCR, '--no-evidence'], capture_output=True, text=True, env=env)
                viol = [l for l in r.stdout.split('\n') if l.startswith('VIOLATION')]
                status = 'CAUGHT' if r.returncode == 1 and viol else 'MISSED'
                if status == 'MISSED': ok = False
                print(f'{name:45s} {prop}: {status}  ' + (viol[0][:150] if viol else r.stdout.strip().split('\n')[-1][:150]), flush=True)
                results.append({'name': name, 'property': prop, 'status': status, 'violations': viol[:5]})
    finally:
        sh(f'git -C /repo worktree remove --force {SCR}'); shutil.rmtree(SCR, ignore_errors=True)
        shutil.rmtree(SNAP, ignore_errors=True)
    json.dump(results, open('/verif/selftest/last_run%s.json' % (('_' + str(lk)) if lane else ''), 'w'), indent=1)
    sys.exit(0 if ok else 1)
main()
