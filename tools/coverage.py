#!/usr/bin/env python3
"""List the functions of /repo (non-test, non-testutils) that are NOT under contract, per package.
Usage: coverage.py [pkgdir ...]"""
import re, subprocess, sys, os, collections
out = subprocess.run(['/verif/bin/govc','list'],capture_output=True,text=True).stdout
have = set()
for l in out.split('\n'):
    if not l.strip(): continue
    have.add(l.split()[0])
pkgs = sys.argv[1:] or ['.', 'part', 'lpm', 'index', 'internal', 'reconciler']
pkgname = {'.':'statedb'}
fre = re.compile(r'^func (\((\w+) (\*?)(\w+)(\[[^\]]*\])?\) )?(\w+)')
for d in pkgs:
    pn = pkgname.get(d, d)
    missing = collections.OrderedDict()
    total = 0
    for f in sorted(os.listdir('/repo/'+d)):
        if not f.endswith('.go') or f.endswith('_test.go') or f.startswith('zz_verif'): continue
        for ln in open(f'/repo/{d}/{f}'):
            m = fre.match(ln)
            if not m: continue
            total += 1
            if m.group(1):
                key = f"{pn}.({m.group(3)}{m.group(4)}).{m.group(6)}" if m.group(3) else f"{pn}.{m.group(4)}.{m.group(6)}"
            else:
                key = f"{pn}.{m.group(6)}"
            if key not in have:
                missing.setdefault(f, []).append(key.split('.',1)[1])
    n = sum(len(v) for v in missing.values())
    print(f"== {pn}: {total-n}/{total} under contract")
    for f, v in missing.items():
        print(f"  {f}: " + ', '.join(v))
