package main

import (
	"os"
	"fmt"
	"go/token"
	"go/types"
	"sort"
	"strings"

	"golang.org/x/tools/go/ssa"
)

const maxInlineDepth = 3

// calleeKey determines the contract key of a call.
func (fr *Frame) calleeKey(c *ssa.CallCommon) (key string, fn *ssa.Function) {
	if c.IsInvoke() {
		// interface method
		recv := c.Value.Type()
		name := "?"
		pkg := ""
		switch n := types.Unalias(recv).(type) {
		case *types.Named:
			name = n.Obj().Name()
			if n.Obj().Pkg() != nil {
				pkg = n.Obj().Pkg().Name()
			}
		case *types.TypeParam:
			name = "TP:" + n.Obj().Name()
		}
		if pkg == "" && c.Method.Pkg() != nil {
			pkg = c.Method.Pkg().Name()
		}
		if pkg == "" {
			pkg = "builtin"
		}
		return pkg + "." + name + "." + c.Method.Name(), nil
	}
	if f := c.StaticCallee(); f != nil {
		if o := f.Origin(); o != nil {
			f = o
		}
		return funcKey(f), f
	}
	return "", nil
}

func (fr *Frame) doCall(st *State, instr ssa.Value, c *ssa.CallCommon, pos token.Pos) []Term {
	res := fr.doCallInner(st, instr, c, pos)
	if fr.spec != nil && len(fr.spec.AfterCalls) > 0 {
		key := ""
		if b, ok := c.Value.(*ssa.Builtin); ok {
			key = "builtin." + b.Name()
		} else {
			key, _ = fr.calleeKey(c)
		}
		if key != "" {
			fr.afterCall(st, key, c, res, pos)
		}
	}
	return res
}

// afterCall assumes the rely conditions ("aftercall callee@n assume ...") attached to a call site.
func (fr *Frame) afterCall(st *State, key string, c *ssa.CallCommon, res []Term, pos token.Pos) {
	fc := fr.fc
	ord := fr.siteOrd[c]
	sk := shortKey(key)
	names := []string{fmt.Sprintf("%s@%d", sk, ord), fmt.Sprintf("%s@*", sk)}
	if i := strings.LastIndex(sk, "."); i >= 0 {
		names = append(names, fmt.Sprintf("%s@%d", sk[i+1:], ord))
	}
	for _, name := range names {
		for _, cl := range fr.spec.AfterCalls[name] {
			env := &Env{fc: fc, fr: fr, st: st, old: fr.top().entry, vars: map[string]Term{}, pkgName: fr.fn.Pkg.Pkg.Name(), at: fr.curBlock}
			for i, a := range fr.callArgs[c] {
				env.vars[fmt.Sprintf("$%d", i)] = a // the call's arguments (receiver first)
			}
			if len(res) > 0 {
				r := res[0]
				if r.T == nil {
					r.T = c.Signature().Results().At(0).Type()
				}
				env.vars["result"] = r
			}
			t, err := fc.evalClause(env, cl)
			if err != nil {
				fc.unsupp(pos, "aftercall %s: %v", name, err)
				continue
			}
			fc.assume(st, t)
			fc.w.assumed["rely condition assumed in "+funcKey(fr.fn)+" after "+name+": "+cl.Src] = true
		}
	}
}

func (fr *Frame) doCallInner(st *State, instr ssa.Value, c *ssa.CallCommon, pos token.Pos) []Term {
	fc := fr.fc
	if b, ok := c.Value.(*ssa.Builtin); ok {
		fr.atCall(st, "builtin."+b.Name(), c, pos)
		return fr.builtin(st, b, c, pos)
	}
	var args []Term
	var argTypes []types.Type
	if c.IsInvoke() {
		args = append(args, fr.val(st, c.Value))
		argTypes = append(argTypes, c.Value.Type())
	}
	for _, a := range c.Args {
		args = append(args, fr.val(st, a))
		argTypes = append(argTypes, a.Type())
	}
	key, fn := fr.calleeKey(c)
	sig := c.Signature()
	if fr.callArgs == nil {
		fr.callArgs = map[*ssa.CallCommon][]Term{}
	}
	fr.callArgs[c] = args
	if key != "" {
		if top := fr.top(); top.spec != nil && top.spec.Flags["assumepre"] != "" {
			// callee preconditions stand for the representation invariant assumed by the caller's
			// contract; the call-site clauses are checked under them
			fr.assumeCalleePre(st, key, fn, sig, args, argTypes, c)
		}
		fr.atCallArgs = args
		fr.atCall(st, key, c, pos)
		fr.atCallArgs = nil
	}

	// closure call: resolve statically if the value is a known closure
	if key == "" {
		if dn := dynCallName(c.Value); dn != "" {
			// call-site clauses on a named function value (parameter, captured variable, field)
			fr.atCallArgs = args
			fr.atCall(st, "dyn."+dn, c, pos)
			fr.atCallArgs = nil
		}
		if cl, ok := fr.closures[c.Value]; ok {
			return fr.callClosure(st, cl, args, pos)
		}
		// function-typed parameter / field: the contract of the function under verification may
		// declare the callback pure ("flag dyncall.<name>=pure")
		if name := dynCallName(c.Value); name != "" && fr.spec != nil && fr.spec.Flags["dyncall."+name] == "pure" {
			fc.w.assumed["callback "+name+" in "+funcKey(fr.fn)+" is assumed to have no effect on the modelled state"] = true
			var res []Term
			for i := 0; i < sig.Results().Len(); i++ {
				rt := sig.Results().At(i).Type()
				r := fc.fresh("r_cb", fc.sortOf(rt), rt)
				fc.assume(st, fc.typeInv(r, rt, 0))
				fc.assume(st, fc.allocInv(r, rt, st.nextID, 0))
				res = append(res, r)
			}
			return res
		}
		return fr.unknownCall(st, "dynamic call of "+c.Value.Name(), sig, nil, pos)
	}
	if key == "builtin.ssa:wrapnilchk" || strings.HasSuffix(key, "ssa:wrapnilchk") {
		return []Term{args[0]}
	}
	spec := fc.w.specs.Funcs[key]
	if spec == nil {
		// wildcard contract for all methods of a type: pkg.Type.*
		if i := strings.LastIndex(key, "."); i > 0 {
			spec = fc.w.specs.Funcs[key[:i]+".*"]
		}
	}
	if spec == nil && fn != nil && fn.Pkg == nil && fn.Object() != nil && fn.Object().Pkg() != nil {
		// external function: contract under its own package name
		spec = fc.w.specs.Funcs[fn.Object().Pkg().Name()+"."+strings.TrimPrefix(key, fn.Object().Pkg().Name()+".")]
	}
	if fn != nil && (spec == nil || spec.Inline) && fc.genericSortMismatch(fn, sig) {
		// an instance of a generic function whose type parameters are instantiated with types of
		// a different logical sort (e.g. T := a struct): the origin body cannot be inlined here
		fc.note("generic callee instantiated at a different sort, treated by its inferred frame: " + key)
		return fr.unknownCall(st, key, sig, fn, pos)
	}
	if spec != nil && spec.Inline && fn != nil && len(fn.Blocks) > 0 && fr.depth < maxInlineDepth {
		return fr.inlineCall(st, fn, spec, args, fr.closures[c.Value], pos)
	}
	if spec != nil {
		return fr.contractCall(st, key, spec, fn, sig, args, argTypes, c, pos)
	}
	if fn != nil && len(fn.Blocks) > 0 && fr.depth < maxInlineDepth && autoInlinable(fn) {
		fc.note("auto-inlined small function without contract: " + key)
		return fr.inlineCall(st, fn, nil, args, nil, pos)
	}
	return fr.unknownCall(st, key, sig, fn, pos)
}

// atCall checks the call-site preconditions ("atcall callee@n requires ...") that the
// contract of the function under verification attaches to its n-th call of callee.
func (fr *Frame) atCall(st *State, key string, c *ssa.CallCommon, pos token.Pos) {
	fc := fr.fc
	if fr.spec != nil && len(fr.spec.MustCalls) > 0 {
		fr.markMustCall(st, key, c)
	}
	if fr.spec == nil || len(fr.spec.AtCalls) == 0 {
		return
	}
	ord := fr.siteOrd[c]
	sk := shortKey(key)
	for _, name := range []string{fmt.Sprintf("%s@%d", sk, ord), fmt.Sprintf("%s@*", sk)} {
		cls := fr.spec.AtCalls[name]
		if len(cls) == 0 {
			// also allow the bare method name: Lock@1
			if i := strings.LastIndex(sk, "."); i >= 0 {
				cls = fr.spec.AtCalls[strings.Replace(name, sk, sk[i+1:], 1)]
			}
		}
		for k, cl := range cls {
			env := &Env{fc: fc, fr: fr, st: st, old: fr.top().entry, vars: map[string]Term{}, pkgName: fr.fn.Pkg.Pkg.Name(), at: fr.curBlock}
			for i, a := range fr.atCallArgs {
				env.vars[fmt.Sprintf("$%d", i)] = a // the call's arguments (receiver first)
			}
			t, err := fc.evalGoal(env, cl)
			if err != nil {
				fc.unsupp(pos, "atcall %s: %v", name, err)
				continue
			}
			site := strings.Replace(name, "@*", fmt.Sprintf("@all.site%d", ord), 1)
			on := fmt.Sprintf("atcall.%s.%d", site, k+1)
			if cl.Label != "" {
				on = fmt.Sprintf("atcall.%s.%s", site, cl.Label)
			}
			fc.addObligation(st, "typestate", fr.oblName(on), t, pos, cl.Src)
		}
	}
}

// atPanic checks the "atcall panic@* requires ..." clauses at an explicit panic: the typestate in
// which the function may give up (e.g. "not while the table locks are held").
func (fr *Frame) atPanic(st *State, pos token.Pos) {
	fc := fr.fc
	if fr.spec == nil || len(fr.spec.AtCalls["panic@*"]) == 0 {
		return
	}
	fr.callCount["atpanic"]++
	for k, cl := range fr.spec.AtCalls["panic@*"] {
		env := &Env{fc: fc, fr: fr, st: st, old: fr.top().entry, vars: map[string]Term{}, pkgName: fr.fn.Pkg.Pkg.Name(), at: fr.curBlock}
		t, err := fc.evalGoal(env, cl)
		if err != nil {
			fc.unsupp(pos, "atcall panic@*: %v", err)
			continue
		}
		on := fmt.Sprintf("atcall.panic@all.site%d.%d", fr.callCount["atpanic"], k+1)
		if cl.Label != "" {
			on = fmt.Sprintf("atcall.panic@all.site%d.%s", fr.callCount["atpanic"], cl.Label)
		}
		fc.addObligation(st, "typestate", fr.oblName(on), t, pos, cl.Src)
	}
}

// dynCallName names the variable or field a called function value was read from.
func dynCallName(v ssa.Value) string {
	if u, ok := v.(*ssa.UnOp); ok && u.Op == token.MUL {
		switch x := u.X.(type) {
		case *ssa.FieldAddr:
			if st, ok := isStruct(elemTypeOfPtr(x.X.Type())); ok {
				return st.Field(x.Field).Name()
			}
		case *ssa.Alloc:
			return x.Comment
		case *ssa.FreeVar:
			return x.Name()
		}
	}
	if f, ok := v.(*ssa.Field); ok {
		if st, ok := isStruct(f.X.Type()); ok {
			return st.Field(f.Field).Name()
		}
	}
	if p, ok := v.(*ssa.Parameter); ok {
		return p.Name()
	}
	return ""
}

func autoInlinable(fn *ssa.Function) bool {
	n := 0
	for _, b := range fn.Blocks {
		n += len(b.Instrs)
		for _, s := range b.Succs {
			if s.Dominates(b) {
				return false
			}
		}
	}
	return n <= 60
}

func (fr *Frame) callClosure(st *State, cl *closureVal, args []Term, pos token.Pos) []Term {
	fc := fr.fc
	key := funcKey(cl.fn)
	spec := fc.w.specs.Funcs[key]
	if fr.depth < maxInlineDepth+1 {
		return fr.inlineCall(st, cl.fn, spec, args, cl, pos)
	}
	return fr.unknownCall(st, key, cl.fn.Signature, cl.fn, pos)
}

func (fr *Frame) inlineCall(st *State, fn *ssa.Function, spec *FuncSpec, args []Term, cl *closureVal, pos token.Pos) []Term {
	fc := fr.fc
	child := fc.newFrame(fn, fr)
	child.spec = spec
	fr.callCount["inl:"+funcKey(fn)]++
	child.prefix = fr.oblName(fmt.Sprintf("inl.%s@%d.", shortKey(funcKey(fn)), fr.callCount["inl:"+funcKey(fn)]))
	for i, p := range fn.Params {
		if i < len(args) {
			a := args[i]
			a.T = p.Type()
			child.vals[p] = a
			child.params[p.Name()] = a
		}
	}
	if cl != nil {
		for i, fv := range fn.FreeVars {
			if i < len(cl.bindings) {
				child.freeVars[fv] = cl.bindings[i]
				// a captured closure variable keeps its static closure value
				if a, ok := cl.bindVals[i].(*ssa.Alloc); ok {
					_ = a
				}
			}
		}
	}
	exit, res, ok := child.runBody(st.clone())
	if !ok {
		// callee never returns (panics): the path ends here
		st.live = tBool(false)
		return nil
	}
	// continue in the caller with the callee's exit state (locals of the caller are untouched
	// by the callee except through captured variables, which live on the heap)
	st.heap = exit.heap
	st.nextID = exit.nextID
	st.live = exit.live
	for a, v := range exit.locals {
		if _, mine := st.locals[a]; mine {
			st.locals[a] = v
		}
	}
	return res
}

func shortKey(k string) string {
	if i := strings.Index(k, "."); i >= 0 {
		return k[i+1:]
	}
	return k
}

// paramNames returns receiver+parameter names of a signature / function.
func paramNames(fn *ssa.Function, sig *types.Signature, invoke bool) []string {
	var names []string
	if fn != nil && len(fn.Params) > 0 {
		for _, p := range fn.Params {
			names = append(names, p.Name())
		}
		return names
	}
	if invoke {
		names = append(names, "recv")
	} else if sig.Recv() != nil {
		names = append(names, sig.Recv().Name())
	}
	for i := 0; i < sig.Params().Len(); i++ {
		names = append(names, sig.Params().At(i).Name())
	}
	return names
}

// assumeCalleePre assumes the preconditions of the callee's contract (flag assumepre).
func (fr *Frame) assumeCalleePre(st *State, key string, fn *ssa.Function, sig *types.Signature, args []Term, argTypes []types.Type, c *ssa.CallCommon) {
	fc := fr.fc
	spec := fc.w.specs.Funcs[key]
	if spec == nil || spec.Inline {
		return
	}
	names := paramNames(fn, sig, c != nil && c.IsInvoke())
	vars := map[string]Term{}
	for i, n := range names {
		if i < len(args) && n != "" && n != "_" {
			a := args[i]
			if fn != nil && i < len(fn.Params) {
				a.T = fn.Params[i].Type()
			} else if i < len(argTypes) {
				a.T = argTypes[i]
			}
			vars[n] = a
		}
	}
	env := &Env{fc: fc, st: st, old: st, vars: vars, pkgName: spec.Pkg}
	for _, r := range spec.Requires {
		if t, err := fc.evalClause(env, r); err == nil {
			fc.assume(st, t)
		}
	}
}

func resultNames(spec *FuncSpec, sig *types.Signature) []string {
	n := sig.Results().Len()
	names := make([]string, n)
	for i := 0; i < n; i++ {
		if spec != nil && i < len(spec.Returns) && spec.Returns[i] != "" && spec.Returns[i] != "_" {
			names[i] = spec.Returns[i]
		} else if nm := sig.Results().At(i).Name(); nm != "" && nm != "_" {
			names[i] = nm
		} else {
			names[i] = fmt.Sprintf("result%d", i)
		}
	}
	return names
}

func (fr *Frame) contractCall(st *State, key string, spec *FuncSpec, fn *ssa.Function, sig *types.Signature, args []Term, argTypes []types.Type, c *ssa.CallCommon, pos token.Pos) []Term {
	fc := fr.fc
	ord := 0
	if c != nil {
		ord = fr.siteOrd[c]
	}
	if ord == 0 {
		fr.callCount["call:"+key]++
		ord = 100 + fr.callCount["call:"+key]
	}
	names := paramNames(fn, sig, c != nil && c.IsInvoke())
	vars := map[string]Term{}
	for i, n := range names {
		if i < len(args) && n != "" && n != "_" {
			a := args[i]
			if fn != nil && i < len(fn.Params) {
				a.T = fn.Params[i].Type()
			} else if i < len(argTypes) {
				a.T = argTypes[i]
			}
			vars[n] = a
		}
	}
	pre := st.clone()
	env := &Env{fc: fc, st: st, old: pre, vars: vars, pkgName: spec.Pkg}
	for k, r := range spec.Requires {
		t, err := fc.evalGoal(env, r)
		if err != nil {
			fc.unsupp(pos, "call %s: requires %d: %v", key, k+1, err)
			continue
		}
		name := fmt.Sprintf("call.%s@%d.pre%d", shortKey(key), ord, k+1)
		if r.Label != "" {
			name = fmt.Sprintf("call.%s@%d.pre.%s", shortKey(key), ord, r.Label)
		}
		if top := fr.top(); top.spec != nil && top.spec.Flags["assumepre"] != "" {
			// the caller's contract declares that callee preconditions follow from a representation
			// invariant that is assumed here (and exercised by the bounded tier)
			fc.assume(st, t)
			fc.w.assumed["in "+funcKey(top.fn)+" the preconditions of callees are assumed ("+top.spec.Flags["assumepre"]+")"] = true
			continue
		}
		fc.addObligation(st, "precondition", fr.oblName(name), t, pos, r.Src)
	}
	// frame
	comps, all := fr.calleeWrites(spec, fn)
	oldNext := st.nextID
	if !(spec.Pure) {
		st.nextID = fc.fresh("nid", SInt, nil)
		fc.assume(st, mk(fmt.Sprintf("(>= %s %s)", st.nextID.S, oldNext.S), SBool, nil))
	}
	if all {
		comps = nil
		for _, c := range fc.sortedComps() {
			if fc.w.isFinalComp(c) {
				continue
			}
			comps = append(comps, c)
		}
	}
	fr.havocComps(st, comps, pre)
	fr.protectStack(st, pre, comps)
	// results
	rn := resultNames(spec, sig)
	var res []Term
	post := &Env{fc: fc, st: st, old: pre, vars: map[string]Term{}, pkgName: spec.Pkg}
	for k, v := range vars {
		post.vars[k] = v
	}
	for i := 0; i < sig.Results().Len(); i++ {
		rt := sig.Results().At(i).Type()
		r := fc.fresh("r_"+identOf(shortKey(key)), fc.sortOf(rt), rt)
		fc.assume(st, fc.typeInv(r, rt, 0))
		fc.assume(st, fc.allocInv(r, rt, st.nextID, 0))
		res = append(res, r)
		post.vars[rn[i]] = r
		if i == 0 {
			post.vars["result"] = r
		}
	}
	for k, e := range spec.Ensures {
		t, err := fc.evalClause(post, e)
		if err != nil {
			fc.unsupp(pos, "call %s: ensures %d: %v", key, k+1, err)
			continue
		}
		fc.assume(st, t)
	}
	if spec.Trusted {
		fc.w.assumed["trusted contract: "+key] = true
	}
	return res
}

func (fr *Frame) unknownCall(st *State, key string, sig *types.Signature, fn *ssa.Function, pos token.Pos) []Term {
	fc := fr.fc
	comps, all := []string(nil), true
	if fn != nil && len(fn.Blocks) > 0 {
		ms, a := fc.modset(fn, map[*ssa.Function]bool{})
		comps, all = ms, a
		fc.note("call without contract, frame inferred from the callee body: " + key)
	} else if knownPure(key) {
		comps, all = nil, false
		fc.w.assumed["assumed pure (no effect on modelled state): "+key] = true
	} else {
		fc.w.assumed["unknown callee, all heap components havocked: "+key] = true
	}
	oldNext := st.nextID
	preCall := st.clone()
	st.nextID = fc.fresh("nid", SInt, nil)
	fc.assume(st, mk(fmt.Sprintf("(>= %s %s)", st.nextID.S, oldNext.S), SBool, nil))
	if all {
		comps = nil
		for _, c := range fc.sortedComps() {
			if strings.HasPrefix(c, "GH_") && (fn == nil || len(fn.Blocks) == 0) {
				// ghost protocol state is changed only by functions whose contracts say so;
				// external code and callbacks are assumed not to take or release our locks
				continue
			}
			if fc.w.isFinalComp(c) {
				continue // fields written only during construction keep their value
			}
			comps = append(comps, c)
		}
		fc.w.assumed["unknown external callees and callbacks do not change the ghost protocol state (locks held by this goroutine, root stores)"] = true
	}
	fr.havocComps(st, comps, preCall)
	fr.protectStack(st, preCall, comps)
	var res []Term
	for i := 0; i < sig.Results().Len(); i++ {
		rt := sig.Results().At(i).Type()
		r := fc.fresh("r_unk", fc.sortOf(rt), rt)
		fc.assume(st, fc.typeInv(r, rt, 0))
		fc.assume(st, fc.allocInv(r, rt, st.nextID, 0))
		res = append(res, r)
	}
	return res
}

var pureExternal = []string{
	"fmt.Sprintf", "fmt.Errorf", "fmt.Sprint", "errors.New", "time.Now", "time.Since", "time.Time.Sub", "time.Time.Add", "time.Time.After", "time.Time.Before",
	"time.Duration.", "runtime.SetFinalizer", "runtime.AddCleanup", "reflect.ValueOf", "reflect.Value.", "reflect.TypeOf", "sort.Strings",
	"strings.", "strconv.", "math.", "bits.", "binary.", "bytes.Compare", "bytes.Equal", "bytes.HasPrefix", "unsafe.", "errors.Is", "errors.As",
	"netip.", "atomic.", "os.Getenv", "slices.Max", "slices.Min",
}

func knownPure(key string) bool {
	for _, p := range pureExternal {
		if strings.HasPrefix(key, p) || strings.Contains(key, "."+p) {
			return true
		}
	}
	return false
}

// ---------------------------------------------------------------------------
// builtins

func (fr *Frame) builtin(st *State, b *ssa.Builtin, c *ssa.CallCommon, pos token.Pos) []Term {
	fc := fr.fc
	var args []Term
	for _, a := range c.Args {
		args = append(args, fr.val(st, a))
	}
	switch b.Name() {
	case "len", "cap":
		x := args[0]
		switch u := c.Args[0].Type().Underlying().(type) {
		case *types.Slice, *types.Basic:
			if b.Name() == "len" {
				return []Term{slLen(x)}
			}
			return []Term{slCap(x)}
		case *types.Array:
			return []Term{tInt(u.Len())}
		case *types.Pointer:
			if a, ok := u.Elem().Underlying().(*types.Array); ok {
				return []Term{tInt(a.Len())}
			}
		case *types.Map:
			fc.compMap(u)
			n := tSel(fc.comp(st, "MN_"+mapID(u)), x, SInt, types.Typ[types.Int])
			fc.assume(st, mk(fmt.Sprintf("(>= %s 0)", n.S), SBool, nil))
			return []Term{n}
		case *types.Chan:
			r := fc.fresh("chanlen", SInt, types.Typ[types.Int])
			fc.assume(st, mk(fmt.Sprintf("(>= %s 0)", r.S), SBool, nil))
			return []Term{r}
		}
		fc.unsupp(pos, "len/cap of %s", shortTypeString(c.Args[0].Type()))
		return []Term{fc.fresh("len", SInt, types.Typ[types.Int])}
	case "append":
		return []Term{fr.appendOp(st, args[0], args[1], c.Args[0].Type(), c.Args[1].Type(), pos)}
	case "copy":
		dst, src := args[0], args[1]
		et := elemOfSliceOrString(c.Args[0].Type())
		n := fc.define("cpn", mk(fmt.Sprintf("(ite (<= (sl_len %s) (sl_len %s)) (sl_len %s) (sl_len %s))", dst.S, src.S, dst.S, src.S), SInt, types.Typ[types.Int]))
		pre := st.clone()
		fc.bulkCopy(st, pre, et, slArr(dst), slOff(dst), slArr(src), slOff(src), n)
		return []Term{n}
	case "StringData", "SliceData":
		// unsafe.StringData(s) / unsafe.SliceData(s): the address of the first byte / element (strings
		// are byte sequences over E_uint8, like []byte); nil for a string without backing array
		sv := args[0]
		nilp := mk(fmt.Sprintf("(is_PNull %s)", slArr(sv).S), SBool, nil)
		ep := pElem(slArr(sv), slOff(sv))
		return []Term{fc.define("sdata", mk(fmt.Sprintf("(ite %s PNull %s)", nilp.S, ep.S), SPtr, c.Signature().Results().At(0).Type()))}
	case "Slice":
		// unsafe.Slice(p, n): the n elements starting at *p, which is an element of an array
		p, n := args[0], args[1]
		fc.w.assumed["unsafe.Slice(p, n): p points to an element of an array with at least n elements from there on (not checked)"] = true
		nilp := mk(fmt.Sprintf("(is_PNull %s)", p.S), SBool, nil)
		sl := mkSlice(mk(fmt.Sprintf("(ite %s PNull (pe_arr %s))", nilp.S, p.S), SPtr, nil), mk(fmt.Sprintf("(ite %s 0 (pe_idx %s))", nilp.S, p.S), SInt, nil), mk(fmt.Sprintf("(ite %s 0 %s)", nilp.S, n.S), SInt, nil), mk(fmt.Sprintf("(ite %s 0 %s)", nilp.S, n.S), SInt, nil), c.Signature().Results().At(0).Type())
		fr.safety(st, "unsafe", mk(fmt.Sprintf("(or (not %s) (= %s 0))", nilp.S, n.S), SBool, nil), pos, "unsafe.Slice of nil pointer with non-zero length")
		return []Term{fc.define("usl", sl)}
	case "min", "max":
		r := args[0]
		op := "<="
		if b.Name() == "max" {
			op = ">="
		}
		for _, a := range args[1:] {
			r = mk(fmt.Sprintf("(ite (%s %s %s) %s %s)", op, r.S, a.S, r.S, a.S), r.Sort, r.T)
		}
		return []Term{fc.define("mm", r)}
	case "close":
		ch := args[0]
		cc := fc.compChanClosed()
		fr.nonNil(st, ch, pos, "close of nil channel")
		fr.safety(st, "close", tNot(tSel(fc.comp(st, cc), ch, SBool, nil)), pos, "close of closed channel")
		fc.setComp(st, cc, tStore(fc.comp(st, cc), ch, tBool(true)))
		fr.recordClose(st, ch, pos)
		return nil
	case "clear":
		switch u := c.Args[0].Type().Underlying().(type) {
		case *types.Map:
			dom, _, ks, _ := fc.compMap(u)
			id := mapID(u)
			m := args[0]
			fc.setComp(st, dom, tStore(fc.comp(st, dom), m, mk(fmt.Sprintf("((as const (Array %s Bool)) false)", ks), "", nil)))
			fc.setComp(st, "MN_"+id, tStore(fc.comp(st, "MN_"+id), m, tInt(0)))
		case *types.Slice:
			// zero all elements: modelled as havoc of the element components restricted by nothing
			// more precise (sound over-approximation: the elements become unknown).
			fr.havocElems(st, u.Elem())
			fc.note("clear(slice) havocs the element components")
		}
		return nil
	case "delete":
		mt := c.Args[0].Type().Underlying().(*types.Map)
		dom, _, _, _ := fc.compMap(mt)
		id := mapID(mt)
		m, k := args[0], args[1]
		d, n := fc.comp(st, dom), fc.comp(st, "MN_"+id)
		was := mk(fmt.Sprintf("(select (select %s %s) %s)", d.S, m.S, k.S), SBool, nil)
		fc.setComp(st, dom, mk(fmt.Sprintf("(store %s %s (store (select %s %s) %s false))", d.S, m.S, d.S, m.S, k.S), d.Sort, nil))
		fc.setComp(st, "MN_"+id, mk(fmt.Sprintf("(store %s %s (ite %s (- (select %s %s) 1) (select %s %s)))", n.S, m.S, was.S, n.S, m.S, n.S, m.S), n.Sort, nil))
		return nil
	case "print", "println", "recover":
		if b.Name() == "recover" {
			return []Term{tNilIface}
		}
		return nil
	case "ssa:wrapnilchk":
		return []Term{args[0]}
	case "ssa:deferstack":
		return []Term{mk("PNull", SPtr, nil)}
	case "panic":
		fr.atPanic(st, pos)
		fr.callCount["panic"]++
		if fr.top().spec == nil || !fr.top().spec.MayPanic {
			fc.addObligation(st, "nopanic", fr.oblName(fmt.Sprintf("nopanic.%d", fr.callCount["panic"])), tBool(false), pos, "explicit panic must be unreachable")
		}
		st.live = tBool(false)
		return nil
	}
	fc.unsupp(pos, "builtin %s", b.Name())
	var res []Term
	if sig, ok := b.Type().(*types.Signature); ok {
		for i := 0; i < sig.Results().Len(); i++ {
			res = append(res, fc.fresh("bi", fc.sortOf(sig.Results().At(i).Type()), sig.Results().At(i).Type()))
		}
	}
	return res
}

func (fr *Frame) havocElems(st *State, et types.Type) {
	fc := fr.fc
	if !isAggregate(et) {
		name, _ := fc.compElem(et)
		fr.havocComp(st, name)
		return
	}
	var ls []leaf
	fc.leavesOf(et, nil, &ls)
	for _, l := range ls {
		fr.havocComp(st, l.comp)
	}
}

func elemOfSliceOrString(t types.Type) types.Type {
	switch u := t.Underlying().(type) {
	case *types.Slice:
		return u.Elem()
	case *types.Basic:
		return types.Typ[types.Uint8]
	}
	return types.Typ[types.Uint8]
}

// appendOp models append(s, t...).
func (fr *Frame) appendOp(st *State, s, t Term, sT, tT types.Type, pos token.Pos) Term {
	fc := fr.fc
	et := elemOfSliceOrString(sT)
	n := slLen(t)
	if strings.HasPrefix(t.S, "(mk_slice ") {
		parts := splitTop(t.S[1 : len(t.S)-1])
		if len(parts) == 5 {
			n = mk(parts[3], SInt, types.Typ[types.Int])
		}
	}
	sl := fc.define("apl", slLen(s))
	newLen := fc.define("apn", mk(fmt.Sprintf("(+ %s %s)", sl.S, n.S), SInt, types.Typ[types.Int]))
	inplace := fc.define("inplace", mk(fmt.Sprintf("(<= %s (sl_cap %s))", newLen.S, s.S), SBool, nil))
	pre := st.clone()
	// in-place branch
	stIn := st.clone()
	fc.bulkCopy(stIn, pre, et, slArr(s), mk(fmt.Sprintf("(+ (sl_off %s) %s)", s.S, sl.S), SInt, nil), slArr(t), slOff(t), n)
	// reallocation branch
	stNew := st.clone()
	arr := fc.allocObj(stNew)
	newCap := fc.fresh("newcap", SInt, types.Typ[types.Int])
	fc.assume(st, mk(fmt.Sprintf("(and (>= %s %s) (<= %s 72057594037927936))", newCap.S, newLen.S, newCap.S), SBool, nil))
	fc.bulkZero(stNew, et, arr)
	fc.bulkCopy(stNew, pre, et, arr, tInt(0), slArr(s), slOff(s), sl)
	fc.bulkCopy(stNew, pre, et, arr, sl, slArr(t), slOff(t), n)
	// merge the two heaps
	for _, c := range fc.sortedComps() {
		a, okA := stIn.heap[c]
		b, okB := stNew.heap[c]
		if !okA || !okB {
			continue
		}
		if a.S == b.S {
			st.heap[c] = a
			continue
		}
		fc.setComp(st, c, tIte(inplace, a, b))
	}
	st.nextID = stNew.nextID
	res := tIte(inplace,
		mkSlice(slArr(s), slOff(s), newLen, slCap(s), sT),
		mkSlice(arr, tInt(0), newLen, newCap, sT))
	res.T = sT
	return fc.define("app", res)
}

// ---------------------------------------------------------------------------
// write sets (frames)

func (fc *FnCtx) leafCompsOfType(t types.Type, out map[string]bool) {
	t = types.Unalias(t)
	if _, ok := t.(*types.TypeParam); ok {
		return
	}
	switch u := t.Underlying().(type) {
	case *types.Struct:
		for i := 0; i < u.NumFields(); i++ {
			ft := u.Field(i).Type()
			if isAggregate(ft) {
				fc.leafCompsOfType(ft, out)
			} else {
				name, _ := fc.compField(t, i)
				out[name] = true
			}
		}
	case *types.Array:
		if isAggregate(u.Elem()) {
			fc.leafCompsOfType(u.Elem(), out)
		} else {
			name, _ := fc.compElem(u.Elem())
			out[name] = true
		}
	}
}

func (fc *FnCtx) storeTargets(addr ssa.Value, promoted map[*ssa.Alloc]bool, out map[string]bool) {
	et := elemTypeOfPtr(addr.Type())
	if et == nil {
		return
	}
	if isAggregate(et) {
		fc.leafCompsOfType(et, out)
		return
	}
	switch a := addr.(type) {
	case *ssa.FieldAddr:
		name, _ := fc.compField(elemTypeOfPtr(a.X.Type()), a.Field)
		out[name] = true
		return
	case *ssa.IndexAddr:
		name, _ := fc.compElem(et)
		out[name] = true
		return
	case *ssa.Alloc:
		if promoted[a] {
			return
		}
		name, _ := fc.compBox(et)
		out[name] = true
		return
	case *ssa.Global:
		name, _ := fc.compBox(et)
		out[name] = true
		return
	case *ssa.FreeVar:
		// a captured variable: always a variable box
		name, _ := fc.compBox(et)
		out[name] = true
		return
	}
	name, _ := fc.compBox(et)
	out[name] = true
	name, _ = fc.compElem(et)
	out[name] = true
	for _, fid := range fc.candidateFields(et) {
		n, _ := fc.fieldComp(fid)
		out[n] = true
	}
}

func (fc *FnCtx) elemComps(et types.Type, out map[string]bool) {
	if isAggregate(et) {
		fc.leafCompsOfType(et, out)
		return
	}
	name, _ := fc.compElem(et)
	out[name] = true
}

// instrWrites adds the heap components an instruction may write.
func (fc *FnCtx) instrWrites(in ssa.Instruction, promoted map[*ssa.Alloc]bool, out map[string]bool, visiting map[*ssa.Function]bool) (all bool) {
	switch x := in.(type) {
	case *ssa.Store:
		if a, ok := x.Addr.(*ssa.Alloc); ok && promoted[a] {
			return false
		}
		if fc.frameMode && stackRooted(x.Addr) {
			return false // writes to non-escaping locals are invisible to callers
		}
		if freshRooted(x.Addr, promoted, 0) {
			tmp := map[string]bool{}
			fc.storeTargets(x.Addr, promoted, tmp)
			for k := range tmp {
				out["~"+k] = true
			}
			return false
		}
		fc.storeTargets(x.Addr, promoted, out)
	case *ssa.Alloc:
		if promoted[x] {
			return false
		}
		if fc.frameMode && !x.Heap {
			return false
		}
		et := elemTypeOfPtr(x.Type())
		tmp := map[string]bool{}
		if isAggregate(et) {
			fc.leafCompsOfType(et, tmp)
		} else {
			name, _ := fc.compBox(et)
			tmp[name] = true
		}
		for k := range tmp {
			out["~"+k] = true
		}
	case *ssa.MakeSlice:
		tmp := map[string]bool{}
		fc.elemComps(x.Type().Underlying().(*types.Slice).Elem(), tmp)
		for k := range tmp {
			out["~"+k] = true
		}
	case *ssa.MakeMap:
		mt := x.Type().Underlying().(*types.Map)
		d, v, _, _ := fc.compMap(mt)
		out["~"+d], out["~"+v], out["~MN_"+mapID(mt)] = true, true, true
	case *ssa.MakeChan:
		out["~"+fc.compChanClosed()] = true
	case *ssa.MapUpdate:
		mt := x.Map.Type().Underlying().(*types.Map)
		d, v, _, _ := fc.compMap(mt)
		out[d], out[v], out["MN_"+mapID(mt)] = true, true, true
	case *ssa.Next:
		if r, ok := x.Iter.(*ssa.Range); ok && !x.IsString && !fc.frameMode {
			if _, isMap := r.X.Type().Underlying().(*types.Map); isMap {
				out[compRangeIter] = true // the hidden iteration counter of a range-over-map loop
				sc, _ := fc.rangeSeenComp(r.X.Type().Underlying().(*types.Map))
				out[sc] = true
			}
		}
	case ssa.CallInstruction:
		if _, isGo := in.(*ssa.Go); isGo {
			return false
		}
		c := x.Common()
		if b, ok := c.Value.(*ssa.Builtin); ok {
			switch b.Name() {
			case "append", "copy":
				fc.elemComps(elemOfSliceOrString(c.Args[0].Type()), out)
			case "clear":
				switch u := c.Args[0].Type().Underlying().(type) {
				case *types.Map:
					d, v, _, _ := fc.compMap(u)
					out[d], out[v], out["MN_"+mapID(u)] = true, true, true
				case *types.Slice:
					fc.elemComps(u.Elem(), out)
				}
			case "delete":
				mt := c.Args[0].Type().Underlying().(*types.Map)
				d, v, _, _ := fc.compMap(mt)
				out[d], out[v], out["MN_"+mapID(mt)] = true, true, true
			case "close":
				out[fc.compChanClosed()] = true
				out["FX_close"] = true // effect marker: this code closes a channel
			}
			return false
		}
		var key string
		var fn *ssa.Function
		if c.IsInvoke() {
			fr := &Frame{fc: fc}
			key, _ = fr.calleeKey(c)
		} else if f := c.StaticCallee(); f != nil {
			if o := f.Origin(); o != nil {
				f = o
			}
			key, fn = funcKey(f), f
		} else if mc, ok := c.Value.(*ssa.MakeClosure); ok {
			fn = mc.Fn.(*ssa.Function)
			key = funcKey(fn)
		}
		wspec := fc.w.specs.Funcs[key]
		if wspec == nil {
			if i := strings.LastIndex(key, "."); i > 0 {
				wspec = fc.w.specs.Funcs[key[:i]+".*"]
			}
		}
		if spec := wspec; spec != nil && spec.HasMod {
			cs, a := fc.expandModifies(spec)
			for _, c := range cs {
				out[c] = true
			}
			return a
		}
		if fn != nil && len(fn.Blocks) > 0 {
			if visiting[fn] {
				return false
			}
			cs, a := fc.modset(fn, visiting)
			for _, c := range cs {
				out[c] = true
			}
			return a
		}
		if key != "" && knownPure(key) {
			return false
		}
		if spec := wspec; spec != nil && spec.Trusted {
			return false
		}
		if key == "" {
			if name := dynCallName(c.Value); name != "" && fc.modSpec != nil && fc.modSpec.Flags["dyncall."+name] == "pure" {
				return false
			}
		}
		return true
	}
	return false
}

func (fc *FnCtx) expandModifies(spec *FuncSpec) ([]string, bool) {
	if spec.Pure {
		return nil, false
	}
	var out []string
	for _, m := range spec.Modifies {
		if m == "*" {
			return nil, true
		}
		if strings.HasSuffix(m, "*") {
			pre := strings.TrimSuffix(m, "*")
			for _, c := range fc.sortedComps() {
				if strings.HasPrefix(c, pre) && !fc.w.isFinalComp(c) {
					out = append(out, c) // a pattern never covers construction-only fields
				}
			}
			continue
		}
		if _, ok := fc.comps[m]; !ok {
			// component not (yet) known in this context: nothing in this context can observe it
			continue
		}
		out = append(out, m)
	}
	return out, false
}

// stackRooted reports whether an address is derived (by field/index selection) from a
// non-escaping local variable.
func stackRooted(v ssa.Value) bool {
	for i := 0; i < 16; i++ {
		switch x := v.(type) {
		case *ssa.Alloc:
			return !x.Heap
		case *ssa.FieldAddr:
			v = x.X
		case *ssa.IndexAddr:
			if _, isPtr := x.X.Type().Underlying().(*types.Pointer); !isPtr {
				return false // element of a slice: the backing array may be shared
			}
			v = x.X
		default:
			return false
		}
	}
	return false
}

// modset computes the set of components a function body may write (transitively), as seen
// by callers: writes to the function's own non-escaping locals are left out.
func (fc *FnCtx) modset(fn *ssa.Function, visiting map[*ssa.Function]bool) ([]string, bool) {
	if r, ok := fc.modCache[fn]; ok {
		return r.comps, r.all
	}
	saveMode := fc.frameMode
	fc.frameMode = true
	saveSpec := fc.modSpec
	fc.modSpec = fc.w.specs.Funcs[funcKey(fn)]
	defer func() { fc.frameMode = saveMode; fc.modSpec = saveSpec }()
	visiting[fn] = true
	defer delete(visiting, fn)
	out := map[string]bool{}
	all := false
	promoted := computePromoted(fn)
	for _, b := range fn.Blocks {
		for _, in := range b.Instrs {
			if fc.instrWrites(in, promoted, out, visiting) {
				all = true
			}
		}
	}
	for _, af := range fn.AnonFuncs {
		cs, a := fc.modset(af, visiting)
		for _, c := range cs {
			out[c] = true
		}
		all = all || a
	}
	var cs []string
	for c := range out {
		if strings.HasPrefix(c, "~") && out[c[1:]] {
			continue // also written at pre-existing locations
		}
		cs = append(cs, c)
	}
	sort.Strings(cs)
	if len(visiting) == 1 {
		fc.modCache[fn] = modResult{cs, all}
	}
	return cs, all
}

// freshRooted reports whether an address certainly lies in memory allocated by the current
// activation (so that, for the caller, only fresh memory is written through it).
func freshRooted(v ssa.Value, promoted map[*ssa.Alloc]bool, depth int) bool {
	if depth > 12 {
		return false
	}
	switch x := v.(type) {
	case *ssa.Alloc:
		return !promoted[x]
	case *ssa.MakeSlice:
		return true
	case *ssa.FieldAddr:
		return freshRooted(x.X, promoted, depth+1)
	case *ssa.IndexAddr:
		return freshRooted(x.X, promoted, depth+1)
	case *ssa.Slice:
		return freshRooted(x.X, promoted, depth+1)
	case *ssa.ChangeType:
		return freshRooted(x.X, promoted, depth+1)
	case *ssa.UnOp:
		if x.Op != token.MUL {
			return false
		}
		a, ok := x.X.(*ssa.Alloc)
		if !ok || !promoted[a] || a.Referrers() == nil {
			return false
		}
		n := 0
		for _, r := range *a.Referrers() {
			if st, ok := r.(*ssa.Store); ok && st.Addr == a {
				n++
				if !freshRooted(st.Val, promoted, depth+1) {
					return false
				}
			}
		}
		return n > 0
	}
	return false
}

// freshRootInstr returns the allocation instruction an address is derived from by field /
// index selection, or nil if there is no single such instruction.
func freshRootInstr(v ssa.Value, depth int) ssa.Instruction {
	if depth > 12 {
		return nil
	}
	switch x := v.(type) {
	case *ssa.Alloc:
		return x
	case *ssa.MakeSlice:
		return x
	case *ssa.FieldAddr:
		return freshRootInstr(x.X, depth+1)
	case *ssa.IndexAddr:
		return freshRootInstr(x.X, depth+1)
	case *ssa.Slice:
		return freshRootInstr(x.X, depth+1)
	case *ssa.ChangeType:
		return freshRootInstr(x.X, depth+1)
	}
	return nil
}

type modResult struct {
	comps []string
	all   bool
}

func (fr *Frame) calleeWrites(spec *FuncSpec, fn *ssa.Function) ([]string, bool) {
	fc := fr.fc
	if spec.HasMod {
		return fc.expandModifies(spec)
	}
	if fn != nil && len(fn.Blocks) > 0 {
		return fc.modset(fn, map[*ssa.Function]bool{})
	}
	if spec.Trusted {
		return nil, false
	}
	return nil, true
}

// loopWrites computes what a loop may modify: promoted locals, heap components, or everything.
func (fr *Frame) loopWrites(li *loopInfo) (locals []*ssa.Alloc, comps []string, all bool) {
	fc := fr.fc
	saveMode := fc.frameMode
	fc.frameMode = false
	saveSpec := fc.modSpec
	fc.modSpec = fr.spec
	defer func() { fc.frameMode = saveMode; fc.modSpec = saveSpec }()
	out := map[string]bool{}
	seen := map[*ssa.Alloc]bool{}
	for _, b := range fr.fn.Blocks {
		if !li.blocks[b] {
			continue
		}
		for _, in := range b.Instrs {
			if s, ok := in.(*ssa.Store); ok {
				if a, ok := s.Addr.(*ssa.Alloc); ok && fr.promoted[a] {
					if !seen[a] {
						seen[a] = true
						locals = append(locals, a)
					}
					continue
				}
			}
			if a, ok := in.(*ssa.Alloc); ok && fr.promoted[a] {
				if !seen[a] {
					seen[a] = true
					locals = append(locals, a)
				}
				continue
			}
			if s, ok := in.(*ssa.Store); ok && freshRooted(s.Addr, fr.promoted, 0) {
				// memory allocated by this activation is "fresh" for callers, but for the loop
				// only what the loop body itself allocates is: a store into an object (e.g. the
				// box of a captured variable) allocated BEFORE the loop changes a location that
				// exists at the loop head
				if root := freshRootInstr(s.Addr, 0); root == nil || root.Block() == nil || !li.blocks[root.Block()] {
					fc.storeTargets(s.Addr, fr.promoted, out)
					continue
				}
			}
			if fc.instrWrites(in, fr.promoted, out, map[*ssa.Function]bool{}) {
				all = true
				if os.Getenv("GOVC_DEBUG_WRITES") != "" {
					fmt.Fprintf(os.Stderr, "loopWrites: everything, because of %s at %s\n", in.String(), fc.w.prog.Fset.Position(in.Pos()))
				}
			}
			// closures called in the loop may write captured promoted... (captured variables are
			// never promoted, they live in boxes)
		}
	}
	for c := range out {
		if strings.HasPrefix(c, "~") && out[c[1:]] {
			continue
		}
		comps = append(comps, c)
	}
	sort.Strings(comps)
	sort.Slice(locals, func(i, j int) bool { return locals[i].Pos() < locals[j].Pos() })
	return
}

// recordClose is a hook for the "closes" effect (ghost bookkeeping of which channels a function closes).
func (fr *Frame) recordClose(st *State, ch Term, pos token.Pos) {}

// genericSortMismatch reports whether the (origin) function fn is called through an instantiated
// signature some parameter or result of which has another SMT sort than in the origin.
func (fc *FnCtx) genericSortMismatch(fn *ssa.Function, inst *types.Signature) bool {
	orig := fn.Signature
	if orig == nil || inst == nil || orig == inst {
		return false
	}
	if orig.Params().Len() != inst.Params().Len() || orig.Results().Len() != inst.Results().Len() {
		return false
	}
	for i := 0; i < orig.Params().Len(); i++ {
		if fc.sortOf(orig.Params().At(i).Type()) != fc.sortOf(inst.Params().At(i).Type()) {
			return true
		}
	}
	for i := 0; i < orig.Results().Len(); i++ {
		if fc.sortOf(orig.Results().At(i).Type()) != fc.sortOf(inst.Results().At(i).Type()) {
			return true
		}
	}
	return false
}

// compMustCall records which of the call sites named by mustcall clauses have been executed.
const compMustCall = "MC_called"

func mustCallKey(site string) Term {
	return mk(fmt.Sprintf("(PObj (- %d))", 100000+int(hashString(site)%800000)), SPtr, nil)
}

// mustCallSites returns the mustcall site names ("callee@n") matching this call.
func (fr *Frame) mustCallSites(key string, c *ssa.CallCommon) []string {
	if fr.spec == nil {
		return nil
	}
	ord := fr.siteOrd[c]
	sk := shortKey(key)
	cands := []string{fmt.Sprintf("%s@%d", sk, ord)}
	if i := strings.LastIndex(sk, "."); i >= 0 {
		cands = append(cands, fmt.Sprintf("%s@%d", sk[i+1:], ord))
	}
	var out []string
	for _, n := range cands {
		if len(fr.spec.MustCalls[n]) > 0 {
			out = append(out, n)
		}
	}
	return out
}

func (fr *Frame) markMustCall(st *State, key string, c *ssa.CallCommon) {
	fc := fr.fc
	for _, site := range fr.mustCallSites(key, c) {
		fc.registerComp(compMustCall, arraySort(SPtr, SBool))
		fc.setComp(st, compMustCall, tStore(fc.comp(st, compMustCall), mustCallKey(site), tBool(true)))
	}
}
