package main

import (
	"encoding/json"
	"flag"
	"fmt"
	"os"
	"path/filepath"
	"runtime"
	"sort"
	"strings"
	"time"
)

var verifRoot = "/verif"
var noEvidence bool

func main() {
	if len(os.Args) < 2 {
		fmt.Fprintln(os.Stderr, "usage: govc <verify|check|list|dump> ...")
		os.Exit(2)
	}
	if r := os.Getenv("VERIF_ROOT"); r != "" {
		verifRoot = r
	}
	switch os.Args[1] {
	case "verify":
		cmdVerify(os.Args[2:])
	case "check":
		cmdCheck(os.Args[2:])
	case "list":
		cmdList(os.Args[2:])
	case "dump":
		cmdDump(os.Args[2:])
	case "finalfields":
		cmdFinal(os.Args[2:])
	default:
		fmt.Fprintln(os.Stderr, "unknown command", os.Args[1])
		os.Exit(2)
	}
}

func mustLoad(repo string) *World {
	w, err := loadWorld(repo, []string{filepath.Join(verifRoot, "contracts")})
	if err != nil {
		fmt.Fprintln(os.Stderr, "load failed:", err)
		os.Exit(3)
	}
	w.registerStructs()
	w.computeFinalFields()
	return w
}

func cmdList(args []string) {
	fs := flag.NewFlagSet("list", flag.ExitOnError)
	repo := fs.String("repo", "/repo", "repository")
	fs.Parse(args)
	w := mustLoad(*repo)
	keys := sortedKeys(w.specs.Funcs)
	for _, k := range keys {
		s := w.specs.Funcs[k]
		_, has := w.funcs[k]
		fmt.Printf("%-60s props=%v trusted=%v found=%v\n", k, s.Props, s.Trusted, has)
	}
}

// verifyFuncs generates and solves the obligations of the given functions.
func verifyFuncs(w *World, keys []string, timeout int, dir string, wantModel bool, verbose bool) ([]*FuncResult, map[string]SolveResult) {
	var results []*FuncResult
	var all []*Obligation
	for _, k := range keys {
		fn := w.funcs[k]
		spec := w.specs.Funcs[k]
		if fn == nil {
			results = append(results, &FuncResult{Key: k, Mismatch: []string{"function not found in the repository"}})
			continue
		}
		if len(fn.Blocks) == 0 {
			results = append(results, &FuncResult{Key: k, Mismatch: []string{"function has no body"}})
			continue
		}
		fc := newFnCtx(w, fn, spec)
		var r *FuncResult
		func() {
			defer func() {
				if rec := recover(); rec != nil {
					if se, ok := rec.(specErr); ok {
						r = &FuncResult{Key: k, Mismatch: []string{string(se)}}
						return
					}
					buf := make([]byte, 4096)
					n := runtime.Stack(buf, false)
					r = &FuncResult{Key: k, Unsupported: []string{fmt.Sprintf("engine panic: %v\n%s", rec, buf[:n])}}
				}
			}()
			r = fc.generate()
		}()
		results = append(results, r)
		all = append(all, r.Obls...)
	}
	sr := solveAll(all, dir, timeout, runtime.NumCPU(), wantModel)
	m := map[string]SolveResult{}
	for _, r := range sr {
		m[r.Name] = r
	}
	return results, m
}

func cmdVerify(args []string) {
	fs := flag.NewFlagSet("verify", flag.ExitOnError)
	repo := fs.String("repo", "/repo", "repository")
	fn := fs.String("func", "", "comma separated function keys (default: all under contract)")
	timeout := fs.Int("timeout", 10, "solver timeout (s)")
	keep := fs.String("keep", "", "directory to keep SMT files in")
	verbose := fs.Bool("v", false, "verbose")
	model := fs.Bool("model", false, "print models of failed obligations")
	fs.Parse(args)
	w := mustLoad(*repo)
	var keys []string
	if *fn != "" {
		keys = strings.Split(*fn, ",")
	} else {
		for _, k := range w.specs.Order {
			if s := w.specs.Funcs[k]; (!s.Trusted || s.Flags["checkbody"] != "") && s.Pkg != "builtin" {
				if f := w.funcs[k]; f != nil && len(f.Blocks) > 0 {
					keys = append(keys, k)
				}
			}
		}
	}
	dir := *keep
	if dir == "" {
		d, _ := os.MkdirTemp("", "govc")
		dir = d
		defer os.RemoveAll(d)
	} else {
		os.MkdirAll(dir, 0o755)
	}
	t0 := time.Now()
	results, sr := verifyFuncs(w, keys, *timeout, dir, *model, *verbose)
	bad := 0
	for _, r := range results {
		nd, nt := 0, 0
		for _, o := range r.Obls {
			if o.Canary {
				continue
			}
			nt++
			if sr[o.Name].Status == "unsat" {
				nd++
			}
		}
		fmt.Printf("== %s: %d/%d discharged\n", r.Key, nd, nt)
		for _, m := range r.Mismatch {
			fmt.Printf("   MISMATCH %s\n", m)
			bad++
		}
		for _, u := range r.Unsupported {
			fmt.Printf("   UNSUPPORTED %s\n", u)
			bad++
		}
		for _, o := range r.Obls {
			s := sr[o.Name]
			if o.Canary {
				if s.Status == "unsat" {
					fmt.Printf("   VACUOUS %s (canary proved: contradiction in assumptions)\n", o.Name)
					bad++
				} else if *verbose {
					fmt.Printf("   ok canary %-60s %s\n", o.Name, s.Status)
				}
				continue
			}
			if s.Status != "unsat" {
				bad++
				fmt.Printf("   FAIL %-70s %s [%s] %s :: %s\n", o.Name, s.Status, s.Solver, o.Pos, o.Descr)
				if *model && s.Output != "" {
					fmt.Println(indent(s.Output, "        "))
				}
			} else if *verbose {
				fmt.Printf("   ok   %-70s %s %.2fs\n", o.Name, s.Solver, s.Seconds)
			}
		}
		if *verbose {
			for _, n := range r.Notes {
				fmt.Printf("   note %s\n", n)
			}
		}
	}
	if *verbose {
		for _, a := range sortedKeys(w.assumed) {
			fmt.Printf("   assumed %s\n", a)
		}
	}
	fmt.Printf("total %.1fs\n", time.Since(t0).Seconds())
	if bad > 0 {
		os.Exit(1)
	}
}

func indent(s, p string) string {
	return p + strings.ReplaceAll(strings.TrimSpace(s), "\n", "\n"+p)
}

// ---------------------------------------------------------------------------
// check: the per-property entry point registered in MANIFEST.json

type Baseline struct {
	Obligations map[string][]string `json:"obligations"` // function -> obligation names that discharge on the pinned tree
	Canaries    map[string][]string `json:"canaries"`
	Universal   map[string][]string `json:"universal"` // function -> stems of clauses that apply to every call site ("atcall f@*"): new sites are covered
}

func loadBaseline() *Baseline {
	b := &Baseline{Obligations: map[string][]string{}, Canaries: map[string][]string{}, Universal: map[string][]string{}}
	data, err := os.ReadFile(filepath.Join(verifRoot, "baseline", "obligations.json"))
	if err == nil {
		json.Unmarshal(data, b)
	}
	if b.Universal == nil {
		b.Universal = map[string][]string{}
	}
	return b
}

func cmdCheck(args []string) {
	fs := flag.NewFlagSet("check", flag.ExitOnError)
	repo := fs.String("repo", "/repo", "repository")
	prop := fs.String("property", "", "property id")
	tier := fs.String("tier", "quick", "quick|thorough")
	update := fs.Bool("update-baseline", false, "record the obligations that discharge as the baseline")
	noEv := fs.Bool("no-evidence", false, "do not write evidence/replay files under /verif (self-test runs)")
	fs.Parse(args)
	noEvidence = *noEv
	if t := os.Getenv("VERIF_TIER"); t != "" && *tier == "" {
		*tier = t
	}
	os.Exit(runCheck(*repo, *prop, *tier, *update))
}

func propFuncs(w *World, prop string) []string {
	var keys []string
	for _, k := range w.specs.Order {
		s := w.specs.Funcs[k]
		if (s.Trusted && s.Flags["checkbody"] == "") || s.Pkg == "builtin" {
			continue // ("flag checkbody": callers use the trusted postconditions, the body is still checked against its call-site clauses)
		}
		for _, p := range s.Props {
			if p == prop {
				keys = append(keys, k)
				break
			}
		}
	}
	sort.Strings(keys)
	return keys
}
