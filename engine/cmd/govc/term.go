package main

import (
	"fmt"
	"go/types"
	"math/big"
	"sort"
	"strings"
)

// Term is an SMT-LIB term (as text) together with its SMT sort and, where known,
// the Go type it stands for. Terms are immutable.
type Term struct {
	S    string     // s-expression
	Sort string     // SMT sort
	T    types.Type // Go type (may be nil for purely logical terms)
	Sh   *PShape    // statically known shape of a pointer term (optional)
	View *Term      // for slice terms inside spec functions: the inner element array (Array Int sigma)
	Mask *big.Int   // for integer terms: an upper bound of the bits that may be set (optional)
}

// PShape records how a pointer term was built.
type PShape struct {
	Kind byte // 'f' field address, 'e' element address, 'o' allocated object
	Base Term
	Idx  Term
	Fid  int
}

const (
	SInt   = "Int"
	SBool  = "Bool"
	SReal  = "Real"
	SPtr   = "Ptr"
	SSlice = "Slice"
	SIface = "Iface"
)

func mk(s, sort string, t types.Type) Term { return Term{S: s, Sort: sort, T: t} }

func app(op string, args ...string) string {
	return "(" + op + " " + strings.Join(args, " ") + ")"
}

func intLit(n int64) string {
	if n < 0 {
		return fmt.Sprintf("(- %d)", -n)
	}
	return fmt.Sprintf("%d", n)
}

func bigLit(s string) string {
	if strings.HasPrefix(s, "-") {
		return "(- " + s[1:] + ")"
	}
	return s
}

func tInt(n int64) Term  { return mk(intLit(n), SInt, types.Typ[types.Int]) }
func tBool(b bool) Term {
	if b {
		return mk("true", SBool, types.Typ[types.Bool])
	}
	return mk("false", SBool, types.Typ[types.Bool])
}

func tAnd(ts ...Term) Term {
	var ss []string
	for _, t := range ts {
		if t.S == "true" {
			continue
		}
		if t.S == "false" {
			return tBool(false)
		}
		ss = append(ss, t.S)
	}
	switch len(ss) {
	case 0:
		return tBool(true)
	case 1:
		return mk(ss[0], SBool, types.Typ[types.Bool])
	}
	return mk(app("and", ss...), SBool, types.Typ[types.Bool])
}

func tOr(ts ...Term) Term {
	var ss []string
	for _, t := range ts {
		if t.S == "false" {
			continue
		}
		if t.S == "true" {
			return tBool(true)
		}
		ss = append(ss, t.S)
	}
	switch len(ss) {
	case 0:
		return tBool(false)
	case 1:
		return mk(ss[0], SBool, types.Typ[types.Bool])
	}
	return mk(app("or", ss...), SBool, types.Typ[types.Bool])
}

func tNot(t Term) Term {
	switch t.S {
	case "true":
		return tBool(false)
	case "false":
		return tBool(true)
	}
	return mk(app("not", t.S), SBool, types.Typ[types.Bool])
}

func tImp(a, b Term) Term {
	if a.S == "true" {
		return b
	}
	if a.S == "false" || b.S == "true" {
		return tBool(true)
	}
	return mk(app("=>", a.S, b.S), SBool, types.Typ[types.Bool])
}

func tEq(a, b Term) Term {
	if a.S == b.S {
		return tBool(true)
	}
	return mk(app("=", a.S, b.S), SBool, types.Typ[types.Bool])
}

func tIte(c, a, b Term) Term {
	if c.S == "true" {
		return a
	}
	if c.S == "false" {
		return b
	}
	if a.S == b.S {
		return a
	}
	return mk(app("ite", c.S, a.S, b.S), a.Sort, a.T)
}

func tSel(arr Term, idx Term, elemSort string, t types.Type) Term {
	return mk(app("select", arr.S, idx.S), elemSort, t)
}

func tStore(arr Term, idx Term, v Term) Term {
	return mk(app("store", arr.S, idx.S, v.S), arr.Sort, arr.T)
}

// ---------------------------------------------------------------------------
// Slice / pointer helpers

func slArr(s Term) Term { return mk(app("sl_arr", s.S), SPtr, nil) }
func slOff(s Term) Term { return mk(app("sl_off", s.S), SInt, types.Typ[types.Int]) }
func slLen(s Term) Term { return mk(app("sl_len", s.S), SInt, types.Typ[types.Int]) }
func slCap(s Term) Term { return mk(app("sl_cap", s.S), SInt, types.Typ[types.Int]) }
func mkSlice(arr, off, ln, cp Term, t types.Type) Term {
	return mk(app("mk_slice", arr.S, off.S, ln.S, cp.S), SSlice, t)
}

var tNull = mk("PNull", SPtr, nil)
var tNilSlice = mk("(mk_slice PNull 0 0 0)", SSlice, nil)
var tNilIface = mk("INil", SIface, nil)

func pObj(id Term) Term {
	t := mk(app("PObj", id.S), SPtr, nil)
	t.Sh = &PShape{Kind: 'o', Idx: id}
	return t
}
func pField(base Term, fid int) Term {
	t := mk(app("PField", base.S, intLit(int64(fid))), SPtr, nil)
	t.Sh = &PShape{Kind: 'f', Base: base, Fid: fid}
	return t
}
func pElem(arr, idx Term) Term {
	t := mk(app("PElem", arr.S, idx.S), SPtr, nil)
	t.Sh = &PShape{Kind: 'e', Base: arr, Idx: idx}
	return t
}

// ---------------------------------------------------------------------------
// Prelude

const preludeCore = `
(declare-datatypes ((Path 0)) (((PathNil) (PathField (pth_fbase Path) (pth_fid Int)) (PathElem (pth_ebase Path) (pth_idx Int)))))
(declare-datatypes ((Ptr 0)) (((mk_ptr (p_root Int) (p_path Path)))))
(define-fun PNull () Ptr (mk_ptr (- 1) PathNil))
(define-fun PObj ((id Int)) Ptr (mk_ptr id PathNil))
(define-fun PField ((b Ptr) (f Int)) Ptr (mk_ptr (p_root b) (PathField (p_path b) f)))
(define-fun PElem ((a Ptr) (i Int)) Ptr (mk_ptr (p_root a) (PathElem (p_path a) i)))
(define-fun is_PNull ((p Ptr)) Bool (= (p_root p) (- 1)))
(define-fun is_PField ((p Ptr)) Bool ((_ is PathField) (p_path p)))
(define-fun is_PElem ((p Ptr)) Bool ((_ is PathElem) (p_path p)))
(define-fun is_PObj ((p Ptr)) Bool ((_ is PathNil) (p_path p)))
(define-fun pf_base ((p Ptr)) Ptr (mk_ptr (p_root p) (pth_fbase (p_path p))))
(define-fun pf_fid ((p Ptr)) Int (pth_fid (p_path p)))
(define-fun pe_arr ((p Ptr)) Ptr (mk_ptr (p_root p) (pth_ebase (p_path p))))
(define-fun pe_idx ((p Ptr)) Int (pth_idx (p_path p)))
(define-fun pobj_id ((p Ptr)) Int (p_root p))
(define-fun rootid ((p Ptr)) Int (p_root p))
(declare-fun ix (Int Int) Int)
(assert (forall ((o Int) (k Int)) (! (= (ix o k) (+ o k)) :pattern ((ix o k)))))
(declare-datatypes ((Slice 0)) (((mk_slice (sl_arr Ptr) (sl_off Int) (sl_len Int) (sl_cap Int)))))
(declare-datatypes ((Iface 0)) (((INil) (mk_iface (i_typ Int) (i_val Int)))))
(define-fun wfslice ((s Slice)) Bool (and (<= 0 (sl_off s)) (<= 0 (sl_len s)) (<= (sl_len s) (sl_cap s)) (<= (+ (sl_off s) (sl_cap s)) 72057594037927936) (=> (is_PNull (sl_arr s)) (= (sl_cap s) 0))))
`

// sortName turns an SMT sort expression into an identifier fragment.
func sortIdent(s string) string {
	r := strings.NewReplacer("(", "_", ")", "_", " ", "_")
	return r.Replace(s)
}

func arraySort(idx, elem string) string { return "(Array " + idx + " " + elem + ")" }

// sortedKeys returns the sorted keys of a map.
func sortedKeys[V any](m map[string]V) []string {
	ks := make([]string, 0, len(m))
	for k := range m {
		ks = append(ks, k)
	}
	sort.Strings(ks)
	return ks
}
