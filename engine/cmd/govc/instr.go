package main

import (
	"fmt"
	"go/token"
	"go/types"
	"strings"

	"golang.org/x/tools/go/ssa"
)

func elemTypeOfPtr(t types.Type) types.Type {
	if p, ok := types.Unalias(t).Underlying().(*types.Pointer); ok {
		return p.Elem()
	}
	return nil
}

func (fr *Frame) setVal(v ssa.Value, t Term) {
	if t.T == nil {
		t.T = v.Type()
	}
	fr.vals[v] = t
}

func (fr *Frame) nonNil(st *State, p Term, pos token.Pos, what string) {
	if p.Sh != nil && (p.Sh.Kind == 'f' || p.Sh.Kind == 'e' || p.Sh.Kind == 'o') && p.Sh.Kind != 'f' {
		return
	}
	if p.Sh != nil && p.Sh.Kind == 'f' {
		return
	}
	fr.safety(st, "nil", tNot(mk(fmt.Sprintf("(is_PNull %s)", p.S), SBool, nil)), pos, "nil dereference: "+what)
}

func (fr *Frame) execInstr(st *State, instr ssa.Instruction) {
	fc := fr.fc
	switch x := instr.(type) {
	case *ssa.DebugRef:
		return
	case *ssa.Alloc:
		et := x.Type().(*types.Pointer).Elem()
		if fr.promoted[x] {
			st.locals[x] = fc.zero(et)
			return
		}
		p := fc.allocObj(st)
		p.T = x.Type()
		if !x.Heap && p.Sh != nil {
			fr.stackIDs = append(fr.stackIDs, p.Sh.Idx)
		}
		if a, ok := isArray(et); ok && isAggregate(a.Elem()) {
			fc.bulkZero(st, a.Elem(), p)
		} else {
			fc.storeVal(st, p, et, fc.zero(et))
		}
		fr.setVal(x, p)
	case *ssa.Store:
		v := fr.val(st, x.Val)
		if a, ok := x.Addr.(*ssa.Alloc); ok && fr.promoted[a] {
			v.T = a.Type().(*types.Pointer).Elem()
			st.locals[a] = v
			if cl, ok := fr.closures[x.Val]; ok {
				fr.closures[a] = cl
			}
			return
		}
		p := fr.val(st, x.Addr)
		fr.nonNil(st, p, x.Pos(), "store")
		fr.atStore(st, p, x.Pos())
		fc.storeVal(st, p, elemTypeOfPtr(x.Addr.Type()), v)
	case *ssa.UnOp:
		fr.unop(st, x)
	case *ssa.BinOp:
		a, b := fr.val(st, x.X), fr.val(st, x.Y)
		if x.Op == token.AND {
			// byte & (0xff << s)  ==  (byte / 2^s) * 2^s   (8-bit identity, s >= 0)
			if m, sh, ok := highMask8(x.X, x.Y); ok {
				v, s := fr.val(st, m), fr.val(st, sh)
				p := pow2Term(s, 8)
				r := mk(fmt.Sprintf("(ite (>= %s 8) 0 (* (div %s %s) %s))", s.S, v.S, p.S, p.S), SInt, x.Type())
				fr.setVal(x, fc.define(x.Name(), r))
				return
			}
		}
		r := fc.binop(x.Op, a, b, x.X.Type(), x.Y.Type(), x.Type(), x.Pos(), st, fr)
		r.T = x.Type()
		fr.setVal(x, fc.define(x.Name(), r))
	case *ssa.Phi:
		// only used for && and || in naive form: select by which predecessor edge was live.
		// The merged state does not remember the edge, so use a fresh constant constrained per edge.
		m := fc.fresh("phi", fc.sortOf(x.Type()), x.Type())
		for i, e := range x.Edges {
			pred := x.Block().Preds[i]
			ev, ok := fr.phiEdge[phiEdgeKey{pred, x.Block()}]
			if !ok {
				continue
			}
			var v Term
			if c, isC := e.(*ssa.Const); isC {
				v = fr.val(st, c)
			} else if t, ok := fr.vals[e]; ok {
				v = t
			} else {
				continue
			}
			fc.emit(fmt.Sprintf("(assert (=> %s (= %s %s)))", ev.S, m.S, v.S))
		}
		fr.setVal(x, m)
	case *ssa.FieldAddr:
		p := fr.val(st, x.X)
		fr.nonNil(st, p, x.Pos(), "field address")
		stT := elemTypeOfPtr(x.X.Type())
		a := fc.fieldAddr(p, stT, x.Field)
		a.T = x.Type()
		fr.setVal(x, a)
	case *ssa.Field:
		v := fr.val(st, x.X)
		f := fc.structField(v, x.X.Type(), x.Field)
		fr.setVal(x, f)
	case *ssa.IndexAddr:
		fr.indexAddr(st, x)
	case *ssa.Index:
		v := fr.val(st, x.X)
		i := fr.val(st, x.Index)
		switch u := x.X.Type().Underlying().(type) {
		case *types.Array:
			fr.safety(st, "bounds", mk(fmt.Sprintf("(and (<= 0 %s) (< %s %d))", i.S, i.S, u.Len()), SBool, nil), x.Pos(), "array index")
			fr.setVal(x, mk(app("select", v.S, i.S), fc.sortOf(u.Elem()), u.Elem()))
		default: // string
			fr.safety(st, "bounds", mk(fmt.Sprintf("(and (<= 0 %s) (< %s (sl_len %s)))", i.S, i.S, v.S), SBool, nil), x.Pos(), "string index")
			p := pElem(slArr(v), mk(fmt.Sprintf("(ix (sl_off %s) %s)", v.S, i.S), SInt, nil))
			r := fc.loadScalar(st, p, types.Typ[types.Uint8])
			fc.assume(st, fc.typeInv(r, types.Typ[types.Uint8], 0))
			fr.setVal(x, r)
		}
	case *ssa.Slice:
		fr.sliceOp(st, x)
	case *ssa.MakeSlice:
		ln, cp := fr.val(st, x.Len), fr.val(st, x.Cap)
		fr.safety(st, "makeslice", mk(fmt.Sprintf("(and (<= 0 %s) (<= %s %s))", ln.S, ln.S, cp.S), SBool, nil), x.Pos(), "makeslice: len out of range")
		arr := fc.allocObj(st)
		et := x.Type().Underlying().(*types.Slice).Elem()
		fc.bulkZero(st, et, arr)
		fr.setVal(x, mkSlice(arr, tInt(0), ln, cp, x.Type()))
	case *ssa.MakeMap:
		m := fc.allocObj(st)
		mt := x.Type().Underlying().(*types.Map)
		dom, _, ks, _ := fc.compMap(mt)
		id := strings.TrimPrefix(dom, "MD_")
		fc.setComp(st, dom, tStore(fc.comp(st, dom), m, mk(fmt.Sprintf("((as const (Array %s Bool)) false)", ks), "", nil)))
		fc.setComp(st, "MN_"+id, tStore(fc.comp(st, "MN_"+id), m, tInt(0)))
		m.T = x.Type()
		fr.setVal(x, m)
	case *ssa.MakeChan:
		c := fc.allocObj(st)
		cc := fc.compChanClosed()
		fc.setComp(st, cc, tStore(fc.comp(st, cc), c, tBool(false)))
		c.T = x.Type()
		fr.setVal(x, c)
	case *ssa.MakeClosure:
		cl := &closureVal{fn: x.Fn.(*ssa.Function)}
		for _, b := range x.Bindings {
			cl.bindings = append(cl.bindings, fr.val(st, b))
			cl.bindVals = append(cl.bindVals, b)
		}
		fr.closures[x] = cl
		t := fc.fresh("closure", SInt, x.Type())
		fr.setVal(x, t)
	case *ssa.MakeInterface:
		v := fr.val(st, x.X)
		fr.setVal(x, fc.makeIface(v, x.X.Type(), x.Type()))
		if cl, ok := fr.closures[x.X]; ok {
			fr.closures[x] = cl
		}
	case *ssa.ChangeInterface:
		v := fr.val(st, x.X)
		v.T = x.Type()
		fr.setVal(x, v)
	case *ssa.ChangeType:
		v := fr.val(st, x.X)
		if _, toIface := x.Type().Underlying().(*types.Interface); toIface && v.Sort != SIface {
			// a value of type-parameter type converted to an interface (go/ssa emits ChangeType
			// when the constraint's core is an interface): this is a boxing
			fr.setVal(x, fc.makeIface(v, x.X.Type(), x.Type()))
			break
		}
		v.T = x.Type()
		fr.setVal(x, v)
		if cl, ok := fr.closures[x.X]; ok {
			fr.closures[x] = cl
		}
	case *ssa.Convert:
		fr.convertInstr(st, x)
	case *ssa.TypeAssert:
		fr.typeAssert(st, x)
	case *ssa.Extract:
		tup, ok := fr.tuples[x.Tuple]
		if !ok || x.Index >= len(tup) {
			fc.unsupp(x.Pos(), "extract from unknown tuple")
			fr.setVal(x, fc.fresh("ext", fc.sortOf(x.Type()), x.Type()))
			return
		}
		fr.setVal(x, tup[x.Index])
	case *ssa.Lookup:
		fr.lookup(st, x)
	case *ssa.MapUpdate:
		fr.mapUpdate(st, x)
	case *ssa.Call:
		res := fr.doCall(st, x, x.Common(), x.Pos())
		sig := x.Common().Signature()
		switch sig.Results().Len() {
		case 0:
		case 1:
			if len(res) == 1 {
				fr.setVal(x, res[0])
			} else {
				fr.setVal(x, fc.fresh("res", fc.sortOf(x.Type()), x.Type()))
			}
		default:
			fr.tuples[x] = res
		}
		if b, ok := x.Common().Value.(*ssa.Builtin); ok && len(res) == 1 {
			_ = b
			fr.setVal(x, res[0])
		}
	case *ssa.Defer:
		fr.defers = append(fr.defers, x.Common())
		fr.deferPos = append(fr.deferPos, x.Pos())
		fr.deferBlk = append(fr.deferBlk, x.Block())
	case *ssa.RunDefers:
		for i := len(fr.defers) - 1; i >= 0; i-- {
			db := fr.deferBlk[i]
			if db != nil && !db.Dominates(x.Block()) {
				if !blockReaches(db, x.Block()) {
					continue // this defer statement cannot have been executed on a path to here
				}
				fc.note("defer in a block that does not dominate the return in " + funcKey(fr.fn) + " is treated as executed")
			}
			fr.doCall(st, nil, fr.defers[i], fr.deferPos[i])
		}
	case *ssa.Go:
		fc.note("goroutine creation in " + funcKey(fr.fn) + " is a skip (spawned body verified separately if under contract)")
	case *ssa.Send:
		fc.note("channel send is a skip")
	case *ssa.Select:
		fr.selectInstr(st, x)
	case *ssa.Range:
		fr.rangeInstr(st, x)
	case *ssa.Next:
		fr.nextInstr(st, x)
	case *ssa.SliceToArrayPointer:
		v := fr.val(st, x.X)
		p := slArr(v)
		fc.unsupp(x.Pos(), "slice to array pointer")
		fr.setVal(x, p)
	default:
		fc.unsupp(instr.Pos(), "unsupported instruction %T", instr)
		if v, ok := instr.(ssa.Value); ok {
			fr.setVal(v, fc.fresh("unsup", fc.sortOf(v.Type()), v.Type()))
		}
	}
}

type phiEdgeKey struct{ from, to *ssa.BasicBlock }

func (fr *Frame) unop(st *State, x *ssa.UnOp) {
	fc := fr.fc
	switch x.Op {
	case token.MUL: // load
		if a, ok := x.X.(*ssa.Alloc); ok && fr.promoted[a] {
			v, ok := st.locals[a]
			if !ok {
				v = fc.zero(x.Type())
			}
			v.T = x.Type()
			fr.setVal(x, v)
			if cl, ok := fr.closures[a]; ok {
				fr.closures[x] = cl
			}
			return
		}
		if g, ok := x.X.(*ssa.Global); ok {
			v := fc.loadGlobal(st, g)
			fc.assume(st, fc.typeInv(v, x.Type(), 0))
			fr.setVal(x, v)
			return
		}
		p := fr.val(st, x.X)
		fr.nonNil(st, p, x.Pos(), "load")
		v := fc.loadVal(st, p, x.Type())
		v.T = x.Type()
		fc.assume(st, fc.typeInv(v, x.Type(), 0))
		fr.setVal(x, fc.define(x.Name(), v))
	case token.NOT:
		fr.setVal(x, tNot(fr.val(st, x.X)))
	case token.SUB:
		v := fr.val(st, x.X)
		if v.Sort == SReal {
			fr.setVal(x, mk(app("-", v.S), SReal, x.Type()))
			return
		}
		fr.setVal(x, wrapInt(mk(app("-", v.S), SInt, x.Type()), x.Type(), false))
	case token.XOR:
		v := fr.val(st, x.X)
		b := basicOf(x.Type())
		if b != nil {
			bits, signed := intBits(b)
			if !signed && bits > 0 {
				fr.setVal(x, mk(fmt.Sprintf("(- %s %s)", new2(bits), v.S), SInt, x.Type()))
				return
			}
			if signed {
				fr.setVal(x, mk(fmt.Sprintf("(- (- %s) 1)", v.S), SInt, x.Type()))
				return
			}
		}
		fc.unsupp(x.Pos(), "bitwise complement")
		fr.setVal(x, fc.fresh("compl", SInt, x.Type()))
	case token.ARROW:
		// channel receive: value unknown; blocking not modelled
		ch := fr.val(st, x.X)
		fc.note("channel receive: value is unconstrained, blocking is not modelled")
		if fc.w.watchChan(x.X.Type()) {
			// a receive from a chan struct{} (never sent on: send scan) completes only once it is closed
			fc.assume(st, tSel(fc.comp(st, fc.compChanClosed()), ch, SBool, nil))
		}
		if x.CommaOk {
			v := fc.fresh("recv", fc.sortOf(x.Type().(*types.Tuple).At(0).Type()), x.Type().(*types.Tuple).At(0).Type())
			ok := fc.fresh("recvok", SBool, types.Typ[types.Bool])
			fr.tuples[x] = []Term{v, ok}
			return
		}
		fr.setVal(x, fc.fresh("recv", fc.sortOf(x.Type()), x.Type()))
	default:
		fc.unsupp(x.Pos(), "unary operator %s", x.Op)
		fr.setVal(x, fc.fresh("unop", fc.sortOf(x.Type()), x.Type()))
	}
}

func new2(bits int) string {
	// 2^bits - 1
	return fmt.Sprintf("(- %s 1)", pow2str(bits))
}

func (fr *Frame) indexAddr(st *State, x *ssa.IndexAddr) {
	fc := fr.fc
	i := fr.val(st, x.Index)
	base := fr.val(st, x.X)
	switch u := x.X.Type().Underlying().(type) {
	case *types.Slice:
		fr.safety(st, "bounds", mk(fmt.Sprintf("(and (<= 0 %s) (< %s (sl_len %s)))", i.S, i.S, base.S), SBool, nil), x.Pos(), "slice index out of range")
		idx := mk(fmt.Sprintf("(ix (sl_off %s) %s)", base.S, i.S), SInt, nil)
		p := pElem(fc.define("arr", slArr(base)), fc.define("ix", idx))
		p.T = x.Type()
		fr.setVal(x, p)
		_ = u
	case *types.Pointer:
		arr := u.Elem().Underlying().(*types.Array)
		fr.nonNil(st, base, x.Pos(), "index of nil array pointer")
		fr.safety(st, "bounds", mk(fmt.Sprintf("(and (<= 0 %s) (< %s %d))", i.S, i.S, arr.Len()), SBool, nil), x.Pos(), "array index out of range")
		p := pElem(base, i)
		p.T = x.Type()
		fr.setVal(x, p)
	default:
		fc.unsupp(x.Pos(), "IndexAddr on %s", shortTypeString(x.X.Type()))
		fr.setVal(x, fc.fresh("ia", SPtr, x.Type()))
	}
}

func slOffConst(s Term) Term {
	// recognise (mk_slice a 0 l c)
	if strings.HasPrefix(s.S, "(mk_slice ") {
		parts := splitTop(s.S[1 : len(s.S)-1])
		if len(parts) == 5 {
			return mk(parts[2], SInt, nil)
		}
	}
	return mk("?", SInt, nil)
}

// splitTop splits an s-expression body into its top-level items.
func splitTop(s string) []string {
	var out []string
	depth := 0
	start := -1
	for i := 0; i < len(s); i++ {
		c := s[i]
		switch {
		case c == '(':
			if depth == 0 && start < 0 {
				start = i
			}
			depth++
		case c == ')':
			depth--
			if depth == 0 {
				out = append(out, s[start:i+1])
				start = -1
			}
		case c == ' ':
			if depth == 0 && start >= 0 {
				out = append(out, s[start:i])
				start = -1
			}
		default:
			if depth == 0 && start < 0 {
				start = i
			}
		}
	}
	if start >= 0 {
		out = append(out, s[start:])
	}
	return out
}

func (fr *Frame) sliceOp(st *State, x *ssa.Slice) {
	fc := fr.fc
	base := fr.val(st, x.X)
	var arr, off, ln, cp Term
	switch u := x.X.Type().Underlying().(type) {
	case *types.Slice:
		arr, off, ln, cp = slArr(base), slOff(base), slLen(base), slCap(base)
	case *types.Basic: // string
		arr, off, ln, cp = slArr(base), slOff(base), slLen(base), slLen(base)
	case *types.Pointer:
		a := u.Elem().Underlying().(*types.Array)
		fr.nonNil(st, base, x.Pos(), "slice of nil array pointer")
		arr, off, ln, cp = base, tInt(0), tInt(a.Len()), tInt(a.Len())
	default:
		fc.unsupp(x.Pos(), "slice of %s", shortTypeString(x.X.Type()))
		fr.setVal(x, fc.fresh("sl", SSlice, x.Type()))
		return
	}
	lo := tInt(0)
	if x.Low != nil {
		lo = fr.val(st, x.Low)
	}
	hi := ln
	isStr := basicOf(x.X.Type()) != nil
	if x.High != nil {
		hi = fr.val(st, x.High)
	}
	mx := cp
	if x.Max != nil {
		mx = fr.val(st, x.Max)
	}
	limit := cp
	if isStr {
		limit = ln
	}
	if x.Max != nil {
		fr.safety(st, "bounds", mk(fmt.Sprintf("(and (<= 0 %s) (<= %s %s) (<= %s %s) (<= %s %s))", lo.S, lo.S, hi.S, hi.S, mx.S, mx.S, cp.S), SBool, nil), x.Pos(), "slice bounds out of range")
	} else {
		fr.safety(st, "bounds", mk(fmt.Sprintf("(and (<= 0 %s) (<= %s %s) (<= %s %s))", lo.S, lo.S, hi.S, hi.S, limit.S), SBool, nil), x.Pos(), "slice bounds out of range")
	}
	noff := off
	if lo.S != "0" {
		noff = mk(fmt.Sprintf("(+ %s %s)", off.S, lo.S), SInt, nil)
	}
	nlen := mk(fmt.Sprintf("(- %s %s)", hi.S, lo.S), SInt, nil)
	ncap := mk(fmt.Sprintf("(- %s %s)", mx.S, lo.S), SInt, nil)
	if isStr {
		ncap = nlen
	}
	if lo.S == "0" {
		nlen, ncap = hi, mx
		if isStr {
			ncap = nlen
		}
	}
	r := mkSlice(arr, noff, nlen, ncap, x.Type())
	fr.setVal(x, fc.define(x.Name(), r))
}

func (fr *Frame) convertInstr(st *State, x *ssa.Convert) {
	fc := fr.fc
	v := fr.val(st, x.X)
	from, to := x.X.Type(), x.Type()
	fu, tu := from.Underlying(), to.Underlying()
	// unsafe.Pointer round trips between a struct and its first field
	if b, ok := tu.(*types.Basic); ok && b.Kind() == types.UnsafePointer {
		r := v
		r.T = from // remember the static source type
		fr.setVal(x, r)
		fr.vals[x] = r
		return
	}
	if b, ok := fu.(*types.Basic); ok && b.Kind() == types.UnsafePointer {
		src := v.T
		r := v
		if sp, ok := typeOrNil(src).(*types.Pointer); ok {
			if tp, ok := tu.(*types.Pointer); ok {
				r = fc.unsafeCast(st, v, sp.Elem(), tp.Elem())
			}
		}
		r.T = to
		fr.vals[x] = r
		return
	}
	r := fc.convert(v, from, to, st)
	fr.setVal(x, r)
}

// unsafeCast converts a pointer to 'from' into a pointer to 'to' when one of them is the first
// field of the other (the only unsafe casts in this code base).
func (fc *FnCtx) unsafeCast(st *State, p Term, from, to types.Type) Term {
	if ts, ok := isStruct(to); ok && ts.NumFields() > 0 && sameNamed(ts.Field(0).Type(), from) {
		// *header -> *leaf : the header is field 0 of the target
		fid := fc.w.fieldIDT(to, 0)
		if st != nil {
			fc.assume(st, mk(fmt.Sprintf("(or (is_PNull %s) (and (is_PField %s) (= (pf_fid %s) %d)))", p.S, p.S, p.S, fid), SBool, nil))
		}
		fc.note("unsafe cast *" + shortTypeString(from) + " -> *" + shortTypeString(to) + " assumes the pointer addresses field 0 of the target type")
		return mk(fmt.Sprintf("(ite (is_PNull %s) PNull (pf_base %s))", p.S, p.S), SPtr, nil)
	}
	if fs, ok := isStruct(from); ok && fs.NumFields() > 0 && sameNamed(fs.Field(0).Type(), to) {
		fid := fc.w.fieldIDT(from, 0)
		r := pField(p, fid)
		return mk(fmt.Sprintf("(ite (is_PNull %s) PNull %s)", p.S, r.S), SPtr, nil)
	}
	fc.unsupp(0, "unsafe cast between unrelated types %s and %s", shortTypeString(from), shortTypeString(to))
	return p
}

func sameNamed(a, b types.Type) bool {
	na, ok1 := types.Unalias(a).(*types.Named)
	nb, ok2 := types.Unalias(b).(*types.Named)
	if !ok1 || !ok2 {
		return types.Identical(a, b)
	}
	return na.Origin().Obj() == nb.Origin().Obj()
}

// ---------------------------------------------------------------------------
// interfaces

func (fc *FnCtx) typeID(t types.Type) int {
	return int(1 + hashString(shortTypeString(t))%100000000)
}

func (fc *FnCtx) boxFuncs(sortS string) (box, unbox string) {
	id := sortIdent(sortS)
	box, unbox = "box_"+id, "unbox_"+id
	if !fc.decl["box:"+id] {
		fc.decl["box:"+id] = true
		fc.emit(fmt.Sprintf("(declare-fun %s (%s) Int)", box, sortS))
		fc.emit(fmt.Sprintf("(declare-fun %s (Int) %s)", unbox, sortS))
		fc.emit(fmt.Sprintf("(assert (forall ((v %s)) (! (= (%s (%s v)) v) :pattern ((%s v)))))", sortS, unbox, box, box))
	}
	return
}

func (fc *FnCtx) makeIface(v Term, from, to types.Type) Term {
	if _, isTP := types.Unalias(from).(*types.TypeParam); !isTP {
		if _, ok := from.Underlying().(*types.Interface); ok {
			r := v
			r.T = to
			return r
		}
	}
	if _, ok := types.Unalias(from).(*types.TypeParam); ok {
		// boxing a value of type-parameter type: dynamic type unknown
		box, _ := fc.boxFuncs(v.Sort)
		tid := "tp_typeid_" + identOf(shortTypeString(from))
		fc.declareOnce(tid, fmt.Sprintf("(declare-fun %s () Int)", tid))
		return mk(fmt.Sprintf("(mk_iface %s (%s %s))", tid, box, v.S), SIface, to)
	}
	box, _ := fc.boxFuncs(v.Sort)
	return mk(fmt.Sprintf("(mk_iface %d (%s %s))", fc.typeID(from), box, v.S), SIface, to)
}

func (fr *Frame) typeAssert(st *State, x *ssa.TypeAssert) {
	fc := fr.fc
	v := fr.val(st, x.X)
	at := x.AssertedType
	var okc, val Term
	if _, isIface := at.Underlying().(*types.Interface); isIface {
		if _, isTP := types.Unalias(at).(*types.TypeParam); !isTP {
			okc = fc.fresh("implements", SBool, nil)
			fc.assume(st, tImp(okc, tNot(tEq(v, tNilIface))))
			val = v
			val.T = at
			if x.CommaOk {
				fr.tuples[x] = []Term{val, okc}
			} else {
				fr.safety(st, "typeassert", okc, x.Pos(), "interface conversion")
				fr.setVal(x, val)
			}
			return
		}
	}
	sortS := fc.sortOf(at)
	_, unbox := fc.boxFuncs(sortS)
	if _, isTP := types.Unalias(at).(*types.TypeParam); isTP {
		tid := "tp_typeid_" + identOf(shortTypeString(at))
		fc.declareOnce(tid, fmt.Sprintf("(declare-fun %s () Int)", tid))
		okc = mk(fmt.Sprintf("(and ((_ is mk_iface) %s) (= (i_typ %s) %s))", v.S, v.S, tid), SBool, nil)
	} else {
		okc = mk(fmt.Sprintf("(and ((_ is mk_iface) %s) (= (i_typ %s) %d))", v.S, v.S, fc.typeID(at)), SBool, nil)
	}
	val = mk(fmt.Sprintf("(%s (i_val %s))", unbox, v.S), sortS, at)
	if x.CommaOk {
		val = tIte(okc, val, fc.zero(at))
		val.T = at
		fr.tuples[x] = []Term{val, okc}
		return
	}
	fr.safety(st, "typeassert", okc, x.Pos(), "type assertion")
	fc.assume(st, fc.typeInv(val, at, 0))
	fr.setVal(x, val)
}

// ---------------------------------------------------------------------------
// maps

func mapID(m *types.Map) string {
	return identOf(shortTypeString(m.Key())) + "__" + identOf(shortTypeString(m.Elem()))
}

func (fr *Frame) lookup(st *State, x *ssa.Lookup) {
	fc := fr.fc
	m := fr.val(st, x.X)
	k := fr.val(st, x.Index)
	mt, ok := x.X.Type().Underlying().(*types.Map)
	if !ok { // string index
		fc.unsupp(x.Pos(), "lookup in string")
		fr.setVal(x, fc.fresh("lk", fc.sortOf(x.Type()), x.Type()))
		return
	}
	dom, val, _, vs := fc.compMap(mt)
	in := mk(fmt.Sprintf("(select (select %s %s) %s)", fc.comp(st, dom).S, m.S, k.S), SBool, nil)
	v := mk(fmt.Sprintf("(select (select %s %s) %s)", fc.comp(st, val).S, m.S, k.S), vs, mt.Elem())
	v = tIte(in, v, fc.zero(mt.Elem()))
	v.T = mt.Elem()
	if x.CommaOk {
		fr.tuples[x] = []Term{v, in}
		return
	}
	fr.setVal(x, v)
}

func (fr *Frame) mapUpdate(st *State, x *ssa.MapUpdate) {
	fc := fr.fc
	m := fr.val(st, x.Map)
	k := fr.val(st, x.Key)
	v := fr.val(st, x.Value)
	mt := x.Map.Type().Underlying().(*types.Map)
	fr.nonNil(st, m, x.Pos(), "assignment to entry in nil map")
	dom, val, _, _ := fc.compMap(mt)
	id := mapID(mt)
	d, vv, n := fc.comp(st, dom), fc.comp(st, val), fc.comp(st, "MN_"+id)
	was := mk(fmt.Sprintf("(select (select %s %s) %s)", d.S, m.S, k.S), SBool, nil)
	fc.setComp(st, dom, mk(fmt.Sprintf("(store %s %s (store (select %s %s) %s true))", d.S, m.S, d.S, m.S, k.S), d.Sort, nil))
	fc.setComp(st, val, mk(fmt.Sprintf("(store %s %s (store (select %s %s) %s %s))", vv.S, m.S, vv.S, m.S, k.S, v.S), vv.Sort, nil))
	fc.setComp(st, "MN_"+id, mk(fmt.Sprintf("(store %s %s (ite %s (select %s %s) (+ (select %s %s) 1)))", n.S, m.S, was.S, n.S, m.S, n.S, m.S), n.Sort, nil))
}

// compRangeIter holds, per range-over-map statement, the number of keys yielded so far.
const compRangeIter = "RC_iter"

// rangeSeenComp names the component that holds, per range-over-map statement, the set of keys
// yielded so far (ghost; "$seen[k]" in loop invariants).
func (fc *FnCtx) rangeSeenComp(mt *types.Map) (string, string) {
	ks := fc.sortOf(mt.Key())
	name := "RC_seen_" + identOf(ks)
	fc.registerComp(name, arraySort(SPtr, arraySort(ks, SBool)))
	return name, ks
}

func isRangeMarkerComp(c string) bool {
	return c == compRangeIter || strings.HasPrefix(c, "RC_seen_")
}

func rangeIterKey(x *ssa.Range) Term {
	return mk(fmt.Sprintf("(PObj (- %d))", 1000+x.Block().Index*1000+instrIndex(x)), SPtr, nil)
}

func instrIndex(in ssa.Instruction) int {
	for i, o := range in.Block().Instrs {
		if o == in {
			return i
		}
	}
	return 0
}

func (fr *Frame) rangeInstr(st *State, x *ssa.Range) {
	// map (or string) iteration: the iterator is opaque; Next yields unconstrained keys
	fc := fr.fc
	fr.setVal(x, fc.fresh("rangeit", SInt, nil))
	if _, isMap := x.X.Type().Underlying().(*types.Map); isMap {
		fc.registerComp(compRangeIter, arraySort(SPtr, SInt))
		cur := fc.comp(st, compRangeIter)
		fc.setComp(st, compRangeIter, tStore(cur, rangeIterKey(x), tInt(0)))
		mt := x.X.Type().Underlying().(*types.Map)
		sc, ks := fc.rangeSeenComp(mt)
		fc.setComp(st, sc, tStore(fc.comp(st, sc), rangeIterKey(x), mk(fmt.Sprintf("((as const %s) false)", arraySort(ks, SBool)), arraySort(ks, SBool), nil)))
	}
}

// mapUnchangedInLoop reports whether the loop around a Next instruction leaves maps of the
// ranged-over type alone (then the loop body runs exactly once per key).
func (fr *Frame) mapUnchangedInLoop(x *ssa.Next, mt *types.Map) bool {
	li := fr.loops[x.Block()]
	if li == nil {
		return false
	}
	_, comps, all := fr.loopWrites(li)
	if all {
		return false
	}
	d, _, _, _ := fr.fc.compMap(mt)
	for _, c := range comps {
		if strings.TrimPrefix(c, "~") == d {
			return false
		}
	}
	return true
}

func (fr *Frame) nextInstr(st *State, x *ssa.Next) {
	fc := fr.fc
	tup := x.Type().(*types.Tuple)
	ok := fc.fresh("nextok", SBool, types.Typ[types.Bool])
	k := fc.fresh("nextk", fc.sortOf(tup.At(1).Type()), tup.At(1).Type())
	v := fc.fresh("nextv", fc.sortOf(tup.At(2).Type()), tup.At(2).Type())
	fc.assume(st, fc.typeInv(k, tup.At(1).Type(), 0))
	fc.assume(st, fc.typeInv(v, tup.At(2).Type(), 0))
	fc.assume(st, fc.allocInv(k, tup.At(1).Type(), st.nextID, 0))
	fc.assume(st, fc.allocInv(v, tup.At(2).Type(), st.nextID, 0))
	// for maps: the yielded key is in the map and maps to the yielded value
	if r, isRange := x.Iter.(*ssa.Range); isRange {
		if mt, isMap := r.X.Type().Underlying().(*types.Map); isMap && !x.IsString {
			m := fr.val(st, r.X)
			dom, val, _, _ := fc.compMap(mt)
			if v.Sort != fc.sortOf(mt.Elem()) || k.Sort != fc.sortOf(mt.Key()) {
				// "for k := range m": go/ssa leaves the unused component untyped
				k = fc.fresh("nextk", fc.sortOf(mt.Key()), mt.Key())
				v = fc.fresh("nextv", fc.sortOf(mt.Elem()), mt.Elem())
				fc.assume(st, fc.typeInv(k, mt.Key(), 0))
				fc.assume(st, fc.allocInv(k, mt.Key(), st.nextID, 0))
			}
			fc.assume(st, tImp(ok, mk(fmt.Sprintf("(and (select (select %s %s) %s) (= (select (select %s %s) %s) %s))",
				fc.comp(st, dom).S, m.S, k.S, fc.comp(st, val).S, m.S, k.S, v.S), SBool, nil)))
			// the hidden counter: with the map left alone by the loop, the body runs once per key
			fc.registerComp(compRangeIter, arraySort(SPtr, SInt))
			rk := rangeIterKey(r)
			cnt := fc.define("rcnt", tSel(fc.comp(st, compRangeIter), rk, SInt, types.Typ[types.Int]))
			sc, ks := fc.rangeSeenComp(mt)
			seen := fc.define("rseen", tSel(fc.comp(st, sc), rk, arraySort(ks, SBool), nil))
			if fr.mapUnchangedInLoop(x, mt) {
				// distinct keys, and all of them: a yielded key was not seen before; when the
				// iteration ends every key of the map has been seen
				fc.assume(st, tImp(ok, mk(fmt.Sprintf("(not (select %s %s))", seen.S, k.S), SBool, nil)))
				fc.n++
				q := fmt.Sprintf("k!q%d", fc.n)
				fc.assume(st, tImp(tNot(ok), mk(fmt.Sprintf("(forall ((%s %s)) (! (=> (select (select %s %s) %s) (select %s %s)) :pattern ((select %s %s))))",
					q, ks, fc.comp(st, dom).S, m.S, q, seen.S, q, seen.S, q), SBool, nil)))
				fc.assume(st, mk(fmt.Sprintf("(= %s (< %s (select %s %s)))", ok.S, cnt.S, fc.comp(st, "MN_"+mapID(mt)).S, m.S), SBool, nil))
				fc.note("map iteration: arbitrary order, each step yields a present key; the body runs len(map) times (the loop does not modify maps of this type); distinctness of the yielded keys is not modelled")
			} else {
				fc.note("map iteration yields an arbitrary present key each step (order and exhaustiveness are not modelled)")
			}
			fc.setComp(st, compRangeIter, tStore(fc.comp(st, compRangeIter), rk, mk(fmt.Sprintf("(ite %s (+ %s 1) %s)", ok.S, cnt.S, cnt.S), SInt, nil)))
			fc.setComp(st, sc, tStore(fc.comp(st, sc), rk, mk(fmt.Sprintf("(ite %s (store %s %s true) %s)", ok.S, seen.S, k.S, seen.S), arraySort(ks, SBool), nil)))
		}
	}
	fr.tuples[x] = []Term{ok, k, v}
}

func (fr *Frame) selectInstr(st *State, x *ssa.Select) {
	fc := fr.fc
	// result tuple: (index int, recvOk bool, recv values...)
	idx := fc.fresh("selidx", SInt, types.Typ[types.Int])
	n := len(x.States)
	lo := 0
	if !x.Blocking {
		lo = -1
	}
	fc.assume(st, mk(fmt.Sprintf("(and (<= %d %s) (< %s %d))", lo, idx.S, idx.S, n), SBool, nil))
	res := []Term{idx, fc.fresh("selok", SBool, types.Typ[types.Bool])}
	cc := fc.compChanClosed()
	var anyReady []Term
	for i, s := range x.States {
		ch := fr.val(st, s.Chan)
		if s.Dir == types.RecvOnly {
			et := s.Chan.Type().Underlying().(*types.Chan).Elem()
			res = append(res, fc.fresh("selrecv", fc.sortOf(et), et))
			closed := tSel(fc.comp(st, cc), ch, SBool, nil)
			if fr.fc.w.watchChan(s.Chan.Type()) {
				fc.assume(st, tImp(tEq(idx, tInt(int64(i))), closed))
				anyReady = append(anyReady, closed)
			}
		}
	}
	if !x.Blocking && len(anyReady) == n && n > 0 {
		// default is taken only if no receive is ready
		fc.assume(st, tImp(tEq(idx, tInt(-1)), tNot(tOr(anyReady...))))
	}
	fc.note("select is a nondeterministic choice; a receive from a chan struct{} requires the channel to be closed")
	fr.tuples[x] = res
}


// watchChan reports whether values of this channel type are only ever closed, never sent on
// (chan struct{} in this code base; checked separately by the engine's send scan).
func (w *World) watchChan(t types.Type) bool {
	c, ok := t.Underlying().(*types.Chan)
	if !ok {
		return false
	}
	s, ok := c.Elem().Underlying().(*types.Struct)
	return ok && s.NumFields() == 0
}

// highMask8 recognises v & (0xff << s) on bytes (either operand order) and returns v and s.
func highMask8(a, b ssa.Value) (v, s ssa.Value, ok bool) {
	try := func(val, mask ssa.Value) (ssa.Value, ssa.Value, bool) {
		bo, isB := mask.(*ssa.BinOp)
		if !isB || bo.Op != token.SHL {
			return nil, nil, false
		}
		c, isC := bo.X.(*ssa.Const)
		if !isC || c.Value == nil || c.Value.ExactString() != "255" {
			return nil, nil, false
		}
		if bt := basicOf(bo.Type()); bt == nil || bt.Kind() != types.Uint8 {
			return nil, nil, false
		}
		return val, bo.Y, true
	}
	if v, s, ok = try(a, b); ok {
		return
	}
	return try(b, a)
}

// atStore checks the "atstore Type requires ..." clauses of the function under verification:
// whenever the stored-to address lies inside an object of the named struct type (one of its
// fields, or an element of one of its array fields), the clause must hold for that object ($p).
func (fr *Frame) atStore(st *State, p Term, pos token.Pos) {
	fc := fr.fc
	top := fr
	if fr.spec == nil || len(fr.spec.AtStores) == 0 {
		return
	}
	for tname, cls := range top.spec.AtStores {
		// field ids of the struct type
		var fids, arrFids []int // arrFids: fields of array type (only those can own an element address)
		for id, fi := range fc.w.fidRev {
			if fi.owner == tname || strings.HasSuffix(fi.owner, "_"+tname) {
				fids = append(fids, id)
				if _, isArr := fi.ftype.Underlying().(*types.Array); isArr {
					arrFids = append(arrFids, id)
				}
			}
		}
		if len(fids) == 0 {
			fc.unsupp(pos, "atstore: unknown struct type %s", tname)
			continue
		}
		var ownerT types.Type
		for _, fi := range fc.w.fidRev {
			if fi.owner == tname || strings.HasSuffix(fi.owner, "_"+tname) {
				ownerT = fi.ownerT
				break
			}
		}
		inSetOf := func(e string, set []int) string {
			var alts []string
			for _, f := range set {
				alts = append(alts, fmt.Sprintf("(= %s %d)", e, f))
			}
			if len(alts) == 1 {
				return alts[0]
			}
			return "(or " + strings.Join(alts, " ") + ")"
		}
		inSet := func(e string) string { return inSetOf(e, fids) }
		inArrSet := func(e string) string { return inSetOf(e, arrFids) }
		type cand struct {
			cond  Term
			owner Term
		}
		var cands []cand
		switch {
		case p.Sh != nil && p.Sh.Kind == 'f':
			isOf := false
			for _, f := range fids {
				if f == p.Sh.Fid {
					isOf = true
				}
			}
			if isOf {
				cands = append(cands, cand{tBool(true), p.Sh.Base})
			}
		case p.Sh != nil && p.Sh.Kind == 'e':
			arr := p.Sh.Base
			if arr.Sh != nil && arr.Sh.Kind == 'f' {
				for _, f := range fids {
					if f == arr.Sh.Fid {
						cands = append(cands, cand{tBool(true), arr.Sh.Base})
					}
				}
			} else if arr.Sh == nil && len(arrFids) > 0 {
				c := mk(fmt.Sprintf("(and (is_PField %s) %s)", arr.S, inArrSet("(pf_fid "+arr.S+")")), SBool, nil)
				cands = append(cands, cand{c, mk(fmt.Sprintf("(pf_base %s)", arr.S), SPtr, nil)})
			}
		case p.Sh != nil && p.Sh.Kind == 'o':
		default:
			c1 := mk(fmt.Sprintf("(and (is_PField %s) %s)", p.S, inSet("(pf_fid "+p.S+")")), SBool, nil)
			cands = append(cands, cand{c1, mk(fmt.Sprintf("(pf_base %s)", p.S), SPtr, nil)})
			if len(arrFids) > 0 {
				c2 := mk(fmt.Sprintf("(and (is_PElem %s) (is_PField (pe_arr %s)) %s)", p.S, p.S, inArrSet("(pf_fid (pe_arr "+p.S+"))")), SBool, nil)
				cands = append(cands, cand{c2, mk(fmt.Sprintf("(pf_base (pe_arr %s))", p.S), SPtr, nil)})
			}
		}
		for _, cd := range cands {
			owner := cd.owner
			owner.T = types.NewPointer(ownerT)
			for k, cl := range cls {
				env := &Env{fc: fc, fr: fr, st: st, old: fr.top().entry, vars: map[string]Term{"$p": owner}, pkgName: fr.fn.Pkg.Pkg.Name(), at: fr.curBlock}
				t, err := fc.evalGoal(env, cl)
				if err != nil {
					fc.unsupp(pos, "atstore %s: %v", tname, err)
					continue
				}
				fr.callCount["atstore:"+tname]++
				lbl := fmt.Sprint(k + 1)
				if cl.Label != "" {
					lbl = cl.Label
				}
				name := fmt.Sprintf("atstore.%s@all.site%d.%s", tname, fr.callCount["atstore:"+tname], lbl)
				fc.addObligation(st, "ownership", fr.oblName(name), tImp(cd.cond, t), pos, cl.Src)
			}
		}
	}
}

// blockReaches reports whether control can flow from block a to block b.
func blockReaches(a, b *ssa.BasicBlock) bool {
	seen := map[*ssa.BasicBlock]bool{}
	stack := []*ssa.BasicBlock{a}
	for len(stack) > 0 {
		n := stack[len(stack)-1]
		stack = stack[:len(stack)-1]
		if n == b {
			return true
		}
		if seen[n] {
			continue
		}
		seen[n] = true
		stack = append(stack, n.Succs...)
	}
	return false
}
