package main

import (
	"os"
	"fmt"
	"go/types"
	"sort"
	"strings"

	"golang.org/x/tools/go/ssa"
)

// FuncResult is the outcome of generating the obligations of one function.
type FuncResult struct {
	Key         string
	Obls        []*Obligation
	Unsupported []string
	Notes       []string
	Mismatch    []string // contract does not fit the code (shape mismatch)
	Prelude     string
}

func (fc *FnCtx) entryState() (*State, map[string]Term) {
	st := &State{locals: map[*ssa.Alloc]Term{}, heap: map[string]Term{}, live: tBool(true)}
	fc.declareKnownSorts()
	fc.emit("(declare-const nid0 Int)")
	fc.emit("(assert (>= nid0 0))")
	st.nextID = mk("nid0", SInt, nil)
	for _, c := range fc.sortedComps() {
		name := c + "!0"
		fc.emit(fmt.Sprintf("(declare-const %s %s)", name, fc.comps[c]))
		fc.declConst[name] = true
		v := mk(name, fc.comps[c], nil)
		st.heap[c] = v
		fc.heapAxioms(v, c, st.nextID)
	}
	params := map[string]Term{}
	return st, params
}

// generate produces the obligations of the function under contract.
func (fc *FnCtx) generate() *FuncResult {
	res := &FuncResult{Key: funcKey(fc.fn)}
	var fr *Frame
	for pass := 0; pass < 6; pass++ {
		fc.reset()
		fr = fc.generateOnce(res)
		if !fc.dirty {
			break
		}
	}
	res.Obls = fc.obls
	res.Unsupported = fc.unsupported
	for n := range fc.notes {
		res.Notes = append(res.Notes, n)
	}
	sort.Strings(res.Notes)
	prel := preludeCore
	res.Prelude = prel
	for _, o := range res.Obls {
		o.decls = fc.lines
		o.prel = prel
	}
	_ = fr
	return res
}

func (fc *FnCtx) generateOnce(res *FuncResult) *Frame {
	fn := fc.fn
	spec := fc.spec
	res.Mismatch = nil
	st, _ := fc.entryState()
	fr := fc.newFrame(fn, nil)
	fr.spec = spec
	fr.isTop = true
	pkgName := fn.Pkg.Pkg.Name()
	vars := map[string]Term{}
	for _, p := range fn.Params {
		name := "arg_" + identOf(p.Name())
		fc.emit(fmt.Sprintf("(declare-const %s %s)", name, fc.sortOf(p.Type())))
		t := mk(name, fc.sortOf(p.Type()), p.Type())
		fr.vals[p] = t
		fr.params[p.Name()] = t
		vars[p.Name()] = t
		fc.assume(st, fc.typeInv(t, p.Type(), 0))
		fc.assume(st, fc.allocInv(t, p.Type(), st.nextID, 0))
	}
	for _, fv := range fn.FreeVars {
		name := "fv_" + identOf(fv.Name())
		fc.emit(fmt.Sprintf("(declare-const %s %s)", name, fc.sortOf(fv.Type())))
		t := mk(name, fc.sortOf(fv.Type()), fv.Type())
		if !isAggregate(elemTypeOfPtr(fv.Type())) {
			t.Sh = &PShape{Kind: 'o'} // captured variables live in their own box
		}
		fr.freeVars[fv] = t
		fc.assume(st, fc.allocInv(t, fv.Type(), st.nextID, 0))
		fc.assume(st, tNot(mk(fmt.Sprintf("(is_PNull %s)", t.S), SBool, nil)))
	}
	if spec != nil && len(spec.MustCalls) > 0 {
		fc.registerComp(compMustCall, arraySort(SPtr, SBool))
		for site := range spec.MustCalls {
			fc.assume(st, tNot(tSel(fc.comp(st, compMustCall), mustCallKey(site), SBool, nil)))
		}
	}
	fc.packageAxioms(st, pkgName)
	entry := st.clone()
	fr.entry = entry
	env := &Env{fc: fc, fr: fr, st: st, old: entry, vars: vars, pkgName: pkgName}
	if spec != nil {
		for k, r := range spec.Requires {
			t, err := fc.evalClause(env, r)
			if err != nil {
				res.Mismatch = append(res.Mismatch, fmt.Sprintf("requires %d: %v", k+1, err))
				continue
			}
			fc.assume(st, t)
		}
		for _, u := range spec.Uses {
			if err := fc.useLemma(st, u, pkgName); err != nil {
				res.Mismatch = append(res.Mismatch, err.Error())
			}
		}
	}
	// vacuity canary: the preconditions must be satisfiable
	fc.addCanary(st, "vacuity.entry")
	exit, results, ok := fr.runBody(st)
	if !ok {
		if spec == nil || !spec.MayPanic {
			res.Mismatch = append(res.Mismatch, "no return is reachable")
		}
		return fr
	}
	fc.addCanary(exit, "vacuity.exit")
	if spec != nil {
		sig := fn.Signature
		rn := resultNames(spec, sig)
		post := &Env{fc: fc, fr: fr, st: exit, old: entry, vars: map[string]Term{}, pkgName: pkgName}
		for k, v := range vars {
			post.vars[k] = v
		}
		for i, r := range results {
			if i < len(rn) {
				r.T = sig.Results().At(i).Type()
				post.vars[rn[i]] = r
				if i == 0 {
					post.vars["result"] = r
				}
			}
		}
		if spec.Trusted {
			// flag checkbody: only the call-site clauses (atcall / atstore / mustcall / loop
			// invariants) of a trusted contract are checked against the body; its postconditions
			// (ghost effects the body cannot express) stay assumptions
			spec = &FuncSpec{Pkg: spec.Pkg, Name: spec.Name, Props: spec.Props, Flags: spec.Flags, Loops: spec.Loops, AtCalls: spec.AtCalls, AfterCalls: spec.AfterCalls, MustCalls: spec.MustCalls, AtStores: spec.AtStores, File: spec.File, Line: spec.Line, MayPanic: spec.MayPanic}
		}
		if spec.Flags["splitreturns"] != "" && len(fr.rets) > 1 {
			// one postcondition obligation per return statement (single-path VCs); together they
			// are equivalent to the obligation over the merged exit state
			for ri, r := range fr.rets {
				penv := &Env{fc: fc, fr: fr, st: r.st, old: entry, vars: map[string]Term{}, pkgName: pkgName}
				for k, v := range vars {
					penv.vars[k] = v
				}
				for i, rv := range r.vals {
					if i < len(rn) {
						rv.T = sig.Results().At(i).Type()
						penv.vars[rn[i]] = rv
						if i == 0 {
							penv.vars["result"] = rv
						}
					}
				}
				for k, e := range append(append([]Clause(nil), spec.EnsuresLocal...), spec.Ensures...) {
					t, err := fc.evalGoal(penv, e)
					if err != nil {
						res.Mismatch = append(res.Mismatch, fmt.Sprintf("ensures %d: %v", k+1, err))
						continue
					}
					name := fmt.Sprintf("post.%d", k+1)
					if e.Label != "" {
						name = "post." + e.Label
					}
					fc.addObligation(r.st, "postcondition", fmt.Sprintf("%s.e%d", name, ri+1), t, fn.Pos(), e.Src)
				}
			}
		}
		// ensureslocal clauses see the CURRENT values of (possibly reassigned) parameters, like
		// any other local; exported postconditions see their entry values
		postLocal := &Env{fc: fc, fr: fr, st: exit, old: entry, vars: map[string]Term{}, pkgName: pkgName}
		for k, v := range post.vars {
			if _, isParam := vars[k]; isParam && fr.allocByName(k, nil) != nil {
				continue
			}
			postLocal.vars[k] = v
		}
		for k, e := range append(append([]Clause(nil), spec.EnsuresLocal...), spec.Ensures...) {
			if spec.Flags["splitreturns"] != "" && len(fr.rets) > 1 {
				break
			}
			penv := post
			if k < len(spec.EnsuresLocal) {
				penv = postLocal
			}
			t, err := fc.evalGoal(penv, e)
			if err != nil {
				res.Mismatch = append(res.Mismatch, fmt.Sprintf("ensures %d: %v", k+1, err))
				continue
			}
			name := fmt.Sprintf("post.%d", k+1)
			if e.Label != "" {
				name = "post." + e.Label
			}
			fc.addObligation(exit, "postcondition", name, t, fn.Pos(), e.Src)
		}
		if os.Getenv("GOVC_DEBUG") != "" {
			fmt.Fprintf(os.Stderr, "DEBUG mustcalls of %s: %d\n", spec.Name, len(spec.MustCalls))
		}
		if len(spec.MustCalls) > 0 {
			// typestate "must call": at the (merged) exit the marker of the site is set whenever the
			// clause's condition held at entry
			fc.registerComp(compMustCall, arraySort(SPtr, SBool))
			var sites []string
			for site := range spec.MustCalls {
				sites = append(sites, site)
			}
			sort.Strings(sites)
			for _, site := range sites {
				for k, cl := range spec.MustCalls[site] {
					// the condition is read at the exit (it may mention results and old(...))
					cond, err := fc.evalClause(post, cl)
					if err != nil {
						res.Mismatch = append(res.Mismatch, fmt.Sprintf("mustcall %s: %v", site, err))
						continue
					}
					called := tSel(fc.comp(exit, compMustCall), mustCallKey(site), SBool, nil)
					if os.Getenv("GOVC_DEBUG") != "" {
						fmt.Fprintf(os.Stderr, "DEBUG mustcall %s cond=%s called=%s\n", site, cond.S, called.S)
					}
					name := fmt.Sprintf("mustcall.%s.%d", site, k+1)
					if cl.Label != "" {
						name = fmt.Sprintf("mustcall.%s.%s", site, cl.Label)
					}
					fc.addObligation(exit, "typestate", name, tImp(cond, called), fn.Pos(), "on every return: "+cl.Src+" ==> "+site+" was called")
				}
			}
		}
		if spec.HasMod {
			fc.checkFrame(exit, spec)
		}
		if spec.Flags["noclose"] != "" {
			sites := fc.w.closeSites(fc.fn)
			ok := len(sites) == 0
			descr := "no close() is reachable from this function (static call graph; interface calls resolved by method name)"
			if !ok {
				descr = "close() reachable at: " + strings.Join(sites, "; ")
			}
			fc.w.assumed["effect analysis: calls of function values that are not closures of the module, and calls into other modules, are assumed not to close channels created by statedb"] = true
			fc.obls = append(fc.obls, &Obligation{Name: funcKey(fc.fn) + "#effect.noclose", Kind: "effect", Func: funcKey(fc.fn), Live: "true", Goal: tBool(ok).S, Descr: descr, Props: spec.Props})
		}
	}
	return fr
}

func (fc *FnCtx) addCanary(st *State, name string) {
	full := funcKey(fc.fn) + "#" + name
	o := &Obligation{Name: full, Kind: "canary", Func: funcKey(fc.fn), NDecl: len(fc.lines), Live: st.live.S, Goal: "false", Canary: true, Descr: "reachability canary: must NOT be provable"}
	if fc.spec != nil {
		o.Props = fc.spec.Props
	}
	fc.obls = append(fc.obls, o)
}

// checkFrame compares the declared modifies clause with the inferred write set.
func (fc *FnCtx) checkFrame(st *State, spec *FuncSpec) {
	declared, all := fc.expandModifies(spec)
	if all {
		return
	}
	inferred, infAll := fc.modset(fc.fn, map[*ssa.Function]bool{})
	ok := !infAll
	var extra []string
	ds := map[string]bool{}
	for _, d := range declared {
		ds[d] = true
	}
	for _, c := range inferred {
		if strings.HasPrefix(c, "~") || strings.HasPrefix(c, "FX_") {
			continue // writes to memory allocated by the function itself are always within the frame
		}
		if !ds[c] {
			ok = false
			extra = append(extra, c)
		}
	}
	goal := tBool(ok)
	descr := "write set within the modifies clause"
	if !ok {
		descr = "writes outside the modifies clause: " + strings.Join(extra, " ")
		if infAll {
			descr += " (calls with unknown effects)"
		}
	}
	// a static obligation: goal is literally true or false
	full := funcKey(fc.fn) + "#frame"
	o := &Obligation{Name: full, Kind: "frame", Func: funcKey(fc.fn), NDecl: 0, Live: "true", Goal: goal.S, Descr: descr, Props: spec.Props}
	fc.obls = append(fc.obls, o)
}

// packageAxioms asserts the axioms declared for the package (and the builtin ones).
func (fc *FnCtx) packageAxioms(st *State, pkgName string) {
	for _, ax := range fc.w.specs.Axioms {
		if ax.Pkg != pkgName && ax.Pkg != "builtin" {
			continue
		}
		env := &Env{fc: fc, st: st, vars: map[string]Term{}, pkgName: ax.Pkg}
		t, err := fc.evalClause(env, ax.C)
		if err != nil {
			fc.unsupp(0, "axiom %s: %v", ax.Name, err)
			continue
		}
		fc.emit("(assert " + t.S + ") ; axiom " + ax.Name)
		fc.w.assumed["axiom "+ax.Pkg+"."+ax.Name+": "+ax.C.Src] = true
	}
}

// useLemma instantiates a verified lemma (a ghost function with a contract) as an axiom:
// forall heap, params. requires ==> ensures.
func (fc *FnCtx) useLemma(st *State, use string, pkgName string) error {
	name := strings.TrimSpace(use)
	key := pkgName + "." + name
	if strings.Contains(name, ".") {
		key = name
	}
	ls := fc.w.specs.Funcs[key]
	if ls == nil {
		return fmt.Errorf("use %s: no such lemma contract", name)
	}
	lf := fc.w.funcs[key]
	if lf == nil {
		return fmt.Errorf("use %s: no such lemma function", name)
	}
	// bound variables for parameters and heap components
	var binders []string
	vars := map[string]Term{}
	var guards []Term
	for _, p := range lf.Params {
		fc.n++
		n := fmt.Sprintf("%s!l%d", identOf(p.Name()), fc.n)
		binders = append(binders, fmt.Sprintf("(%s %s)", n, fc.sortOf(p.Type())))
		t := mk(n, fc.sortOf(p.Type()), p.Type())
		vars[p.Name()] = t
		guards = append(guards, fc.typeInv(t, p.Type(), 0))
	}
	hst := &State{locals: map[*ssa.Alloc]Term{}, heap: map[string]Term{}, nextID: mk("0", SInt, nil), live: tBool(true)}
	used := map[string]bool{}
	save := fc.compHook
	fc.compHook = func(s *State, c string) (Term, bool) {
		if s == hst {
			used[c] = true
			return mk("lh$"+c, fc.comps[c], nil), true
		}
		return Term{}, false
	}
	fc.noDefine++
	env := &Env{fc: fc, st: hst, old: hst, vars: vars, pkgName: ls.Pkg}
	var pre, post []Term
	var err error
	for _, r := range ls.Requires {
		var t Term
		if t, err = fc.evalClause(env, r); err != nil {
			break
		}
		pre = append(pre, t)
	}
	if err == nil {
		for _, e := range ls.Ensures {
			var t Term
			if t, err = fc.evalClause(env, e); err != nil {
				break
			}
			post = append(post, t)
		}
	}
	fc.noDefine--
	fc.compHook = save
	if err != nil {
		return fmt.Errorf("use %s: %v", name, err)
	}
	var cs []string
	for c := range used {
		cs = append(cs, c)
	}
	sort.Strings(cs)
	for _, c := range cs {
		binders = append(binders, fmt.Sprintf("(lh$%s %s)", c, fc.comps[c]))
	}
	body := tImp(tAnd(append(guards, pre...)...), tAnd(post...))
	if len(binders) == 0 {
		fc.emit("(assert " + body.S + ") ; lemma " + key)
	} else {
		fc.emit(fmt.Sprintf("(assert (forall (%s) %s)) ; lemma %s", strings.Join(binders, " "), body.S, key))
	}
	fc.note("uses lemma " + key + " (verified separately as a ghost function)")
	return nil
}

var _ = types.Typ
