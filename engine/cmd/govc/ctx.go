package main

import (
	"fmt"
	"go/token"
	"go/types"
	"sort"
	"strings"

	"golang.org/x/tools/go/ssa"
)

// Obligation is one verification condition.
type Obligation struct {
	Name   string
	Kind   string
	Func   string
	Props  []string
	Pos    string
	NDecl  int    // number of declaration lines that form its context
	Live   string // path condition (Bool term)
	Goal   string // Bool term that must follow
	Descr  string
	decls  []string // snapshot reference (shared slice)
	prel   string
	Canary bool // an obligation that is expected to FAIL (vacuity check)
}

// FnCtx is the verification context of one function under contract.
type FnCtx struct {
	w      *World
	fn     *ssa.Function
	spec   *FuncSpec
	pkg    *types.Package
	lines  []string
	decl   map[string]bool
	n      int
	obls   []*Obligation
	comps  map[string]string // component -> sort
	compOrder []string
	dirty  bool // new components discovered in this pass
	usesRootid bool
	specDeclared map[string]bool
	specDeps map[string][]string // spec func -> heap comps it reads (fixpoint)
	tpSorts map[string]bool
	notes  map[string]bool
	unsupported []string
	oblNames map[string]int
	axiomsDone bool
	compHook func(*State, string) (Term, bool)
	compRange map[string][2]string
	specRecursive map[string]bool
	named map[string]string
	sortT map[string]types.Type
	declConst map[string]bool
	sortDeclText map[string][]string // persistent across passes: sort name -> declaration lines
	sortDeclOrder []string
	frameMode bool
	modSpec   *FuncSpec
	unfoldDepth int
	modCache map[*ssa.Function]modResult
	noDefine int
	inQuant  int // >0 while the body of a quantifier of the spec language is being evaluated
}

func newFnCtx(w *World, fn *ssa.Function, spec *FuncSpec) *FnCtx {
	fc := &FnCtx{w: w, fn: fn, spec: spec, comps: map[string]string{}, notes: map[string]bool{}, specDeps: map[string][]string{}, compRange: map[string][2]string{}, modCache: map[*ssa.Function]modResult{}}
	if fn.Pkg != nil {
		fc.pkg = fn.Pkg.Pkg
	}
	fc.reset()
	return fc
}

// ghostSort resolves the element sort of a ghost component declaration.
func (fc *FnCtx) ghostSort(es string) string {
	switch es {
	case "bool":
		return SBool
	case "int":
		return SInt
	case "ptr":
		return SPtr
	}
	if strings.HasPrefix(es, "map[int]") {
		return arraySort(SInt, fc.ghostSort(strings.TrimPrefix(es, "map[int]")))
	}
	pk := ""
	if fc.pkg != nil {
		pk = fc.pkg.Name()
	}
	st := fc.resolveType(pk, es)
	return st.Sort
}

func (fc *FnCtx) reset() {
	fc.lines = nil
	fc.decl = map[string]bool{}
	fc.n = 0
	fc.obls = nil
	fc.dirty = false
	fc.specDeclared = map[string]bool{}
	fc.specRecursive = map[string]bool{}
	fc.named = map[string]string{}
	fc.sortT = map[string]types.Type{}
	// ghost components exist in every context
	for _, name := range sortedKeys(fc.w.specs.Ghost) {
		var sortS string
		func() {
			defer func() {
				if r := recover(); r != nil {
					sortS = ""
				}
			}()
			sortS = fc.ghostSort(fc.w.specs.Ghost[name])
		}()
		if sortS == "" {
			continue // element type not visible from this package: the component cannot be used here
		}
		if _, ok := fc.comps[name]; !ok {
			fc.comps[name] = arraySort(SPtr, sortS)
			fc.compOrder = append(fc.compOrder, name)
		}
	}
	fc.declConst = map[string]bool{}
	fc.tpSorts = map[string]bool{}
	fc.unsupported = nil
	fc.oblNames = map[string]int{}
	fc.axiomsDone = false
}

func (fc *FnCtx) emit(s string) { fc.lines = append(fc.lines, s) }

func (fc *FnCtx) fresh(prefix, sort string, t types.Type) Term {
	fc.n++
	name := fmt.Sprintf("%s!%d", prefix, fc.n)
	fc.emit(fmt.Sprintf("(declare-const %s %s)", name, sort))
	fc.declConst[name] = true
	return mk(name, sort, t)
}

// define introduces a named abbreviation for a term (keeps VCs a DAG).
func (fc *FnCtx) define(prefix string, t Term) Term {
	if len(t.S) < 40 || fc.noDefine > 0 || fc.inQuant > 0 {
		return t // (inside a quantifier a term may mention bound variables: it cannot be named outside)
	}
	fc.n++
	name := fmt.Sprintf("%s!%d", prefix, fc.n)
	fc.emit(fmt.Sprintf("(define-fun %s () %s %s)", name, t.Sort, t.S))
	r := t
	r.S = name
	return r
}

// nameTerm binds a compound term to a declared constant (usable inside quantifier patterns).
func (fc *FnCtx) nameTerm(prefix string, t Term) Term {
	if fc.declConst[t.S] {
		return t
	}
	key := "named:" + t.S
	if n, ok := fc.named[key]; ok {
		r := t
		r.S = n
		return r
	}
	c := fc.fresh(prefix, t.Sort, t.T)
	fc.emit(fmt.Sprintf("(assert (= %s %s))", c.S, t.S))
	fc.named[key] = c.S
	r := t
	r.S = c.S
	return r
}

func (fc *FnCtx) assertGlobal(t Term) {
	if t.S == "true" {
		return
	}
	fc.emit("(assert " + t.S + ")")
}

func (fc *FnCtx) note(s string) { fc.notes[s] = true }

func (fc *FnCtx) unsupp(pos token.Pos, f string, a ...any) {
	msg := fmt.Sprintf(f, a...)
	if pos.IsValid() {
		msg += " at " + fc.w.fset.Position(pos).String()
	}
	fc.unsupported = append(fc.unsupported, msg)
}

func (fc *FnCtx) posStr(pos token.Pos) string {
	if !pos.IsValid() {
		return ""
	}
	p := fc.w.fset.Position(pos)
	return fmt.Sprintf("%s:%d", strings.TrimPrefix(p.Filename, fc.w.repo+"/"), p.Line)
}

// ---------------------------------------------------------------------------
// sorts

func (fc *FnCtx) sortOf(t types.Type) string {
	t = types.Unalias(t)
	switch u := t.(type) {
	case *types.TypeParam:
		name := "TP_" + u.Obj().Name()
		if !fc.decl["sort:"+name] {
			fc.decl["sort:"+name] = true
			lines := []string{fmt.Sprintf("(declare-sort %s 0)", name), fmt.Sprintf("(declare-const zero_%s %s)", name, name)}
			for _, l := range lines {
				fc.emit(l)
			}
			fc.recordSortDecl(name, lines)
		}
		return name
	}
	switch u := t.Underlying().(type) {
	case *types.Basic:
		switch {
		case u.Info()&types.IsBoolean != 0:
			return SBool
		case u.Info()&types.IsInteger != 0:
			return SInt
		case u.Info()&types.IsFloat != 0:
			return SReal
		case u.Info()&types.IsString != 0:
			return SSlice
		case u.Kind() == types.UnsafePointer:
			return SPtr
		case u.Kind() == types.UntypedNil:
			return SPtr
		}
		return SInt
	case *types.Pointer, *types.Map, *types.Chan:
		return SPtr
	case *types.Slice:
		return SSlice
	case *types.Interface:
		if _, ok := t.(*types.TypeParam); ok {
			return SInt
		}
		return SIface
	case *types.Signature:
		return SInt
	case *types.Array:
		return arraySort(SInt, fc.sortOf(u.Elem()))
	case *types.Struct:
		return fc.structSort(t, u)
	case *types.Tuple:
		return "Tuple"
	}
	return SInt
}

func (fc *FnCtx) structSort(t types.Type, st *types.Struct) string {
	base := "S_" + structName(t)
	var fsorts []string
	for i := 0; i < st.NumFields(); i++ {
		fsorts = append(fsorts, fc.sortOf(st.Field(i).Type()))
	}
	name := base
	for _, fs := range fsorts {
		if strings.HasPrefix(fs, "TP_") || strings.Contains(fs, "TP_") {
			name = base + "_" + sortIdent(strings.Join(fsorts, "_"))
			break
		}
	}
	fc.sortT[name] = t
	if !fc.decl["sort:"+name] {
		fc.decl["sort:"+name] = true
		var fl []string
		for i, fs := range fsorts {
			fl = append(fl, fmt.Sprintf("(%s_f%d %s)", name, i, fs))
		}
		var line string
		if len(fl) == 0 {
			line = fmt.Sprintf("(declare-datatypes ((%s 0)) (((mk_%s))))", name, name)
		} else {
			line = fmt.Sprintf("(declare-datatypes ((%s 0)) (((mk_%s %s))))", name, name, strings.Join(fl, " "))
		}
		fc.emit(line)
		fc.recordSortDecl(name, []string{line})
	}
	return name
}

func (fc *FnCtx) recordSortDecl(name string, lines []string) {
	if fc.sortDeclText == nil {
		fc.sortDeclText = map[string][]string{}
	}
	if _, ok := fc.sortDeclText[name]; !ok {
		fc.sortDeclText[name] = lines
		fc.sortDeclOrder = append(fc.sortDeclOrder, name)
	}
}

// declareKnownSorts re-emits (at the start of a pass) the declarations of every sort that an
// earlier pass discovered, so that heap components can mention them from the beginning.
func (fc *FnCtx) declareKnownSorts() {
	for _, name := range fc.sortDeclOrder {
		if fc.decl["sort:"+name] {
			continue
		}
		fc.decl["sort:"+name] = true
		for _, l := range fc.sortDeclText[name] {
			fc.emit(l)
		}
	}
}

func (fc *FnCtx) zero(t types.Type) Term {
	s := fc.sortOf(t)
	switch {
	case s == SInt:
		return mk("0", SInt, t)
	case s == SBool:
		return mk("false", SBool, t)
	case s == SReal:
		return mk("0.0", SReal, t)
	case s == SPtr:
		return mk("PNull", SPtr, t)
	case s == SSlice:
		return mk(tNilSlice.S, SSlice, t)
	case s == SIface:
		return mk("INil", SIface, t)
	case strings.HasPrefix(s, "TP_"):
		return mk("zero_"+s, s, t)
	case strings.HasPrefix(s, "(Array"):
		a, _ := isArray(t)
		z := fc.zero(a.Elem())
		return mk(fmt.Sprintf("((as const %s) %s)", s, z.S), s, t)
	case strings.HasPrefix(s, "S_"):
		st, _ := isStruct(t)
		if st.NumFields() == 0 {
			return mk("mk_"+s, s, t)
		}
		var fs []string
		for i := 0; i < st.NumFields(); i++ {
			fs = append(fs, fc.zero(st.Field(i).Type()).S)
		}
		return mk(app("mk_"+s, fs...), s, t)
	}
	return mk("0", SInt, t)
}

// typeInv returns the range/shape invariant implied by the Go type of a value.
func (fc *FnCtx) typeInv(v Term, t types.Type, depth int) Term {
	if t == nil {
		return tBool(true)
	}
	t = types.Unalias(t)
	if _, ok := t.(*types.TypeParam); ok {
		return tBool(true)
	}
	switch u := t.Underlying().(type) {
	case *types.Basic:
		if lo, hi, ok := intRange(u); ok && v.Sort == SInt {
			return mk(fmt.Sprintf("(and (<= %s %s) (<= %s %s))", lo, v.S, v.S, hi), SBool, nil)
		}
		if u.Info()&types.IsString != 0 {
			return mk(app("wfslice", v.S), SBool, nil)
		}
	case *types.Slice:
		return mk(app("wfslice", v.S), SBool, nil)
	case *types.Struct:
		if depth > 2 {
			return tBool(true)
		}
		var cs []Term
		sn := fc.sortOf(t)
		for i := 0; i < u.NumFields(); i++ {
			f := mk(fmt.Sprintf("(%s_f%d %s)", sn, i, v.S), fc.sortOf(u.Field(i).Type()), u.Field(i).Type())
			cs = append(cs, fc.typeInv(f, u.Field(i).Type(), depth+1))
		}
		return tAnd(cs...)
	}
	return tBool(true)
}

// allocInv: every pointer contained in v refers to an object allocated before bound.
func (fc *FnCtx) allocInv(v Term, t types.Type, bound Term, depth int) Term {
	if t == nil {
		return tBool(true)
	}
	t = types.Unalias(t)
	if _, ok := t.(*types.TypeParam); ok {
		return tBool(true)
	}
	switch u := t.Underlying().(type) {
	case *types.Pointer, *types.Map, *types.Chan:
		fc.usesRootid = true
		return mk(fmt.Sprintf("(< (rootid %s) %s)", v.S, bound.S), SBool, nil)
	case *types.Slice:
		fc.usesRootid = true
		return mk(fmt.Sprintf("(< (rootid (sl_arr %s)) %s)", v.S, bound.S), SBool, nil)
	case *types.Basic:
		if u.Info()&types.IsString != 0 {
			fc.usesRootid = true
			return mk(fmt.Sprintf("(< (rootid (sl_arr %s)) %s)", v.S, bound.S), SBool, nil)
		}
	case *types.Struct:
		if depth > 2 {
			return tBool(true)
		}
		var cs []Term
		sn := fc.sortOf(t)
		for i := 0; i < u.NumFields(); i++ {
			f := mk(fmt.Sprintf("(%s_f%d %s)", sn, i, v.S), fc.sortOf(u.Field(i).Type()), u.Field(i).Type())
			cs = append(cs, fc.allocInv(f, u.Field(i).Type(), bound, depth+1))
		}
		return tAnd(cs...)
	}
	return tBool(true)
}

// ---------------------------------------------------------------------------
// heap components

func scalarSortName(s string) bool {
	return s == SInt || s == SBool || s == SReal || s == SPtr || s == SSlice || s == SIface || strings.HasPrefix(s, "TP_")
}

func (fc *FnCtx) noteRange(name string, t types.Type) {
	if b := basicOf(t); b != nil {
		if lo, hi, ok := intRange(b); ok {
			fc.compRange[name] = [2]string{lo, hi}
		}
	}
}

func (fc *FnCtx) registerComp(name, sort string) {
	if _, ok := fc.comps[name]; !ok {
		fc.comps[name] = sort
		fc.compOrder = append(fc.compOrder, name)
		sort2 := append([]string(nil), fc.compOrder...)
		_ = sort2
		fc.dirty = true
	}
}

func (fc *FnCtx) compField(st types.Type, i int) (name string, elemSort string) {
	s, _ := isStruct(st)
	f := s.Field(i)
	es := fc.sortOf(f.Type())
	name = "H_" + structName(st) + "_" + f.Name()
	if !scalarSortName(es) || strings.HasPrefix(es, "TP_") {
		name += "_" + sortIdent(es)
	}
	fc.registerComp(name, arraySort(SPtr, es))
	fc.noteRange(name, f.Type())
	return name, es
}

func (fc *FnCtx) compElem(elem types.Type) (string, string) {
	es := fc.sortOf(elem)
	name := "E_" + identOf(shortTypeString(canonElem(elem)))
	fc.registerComp(name, arraySort(SPtr, arraySort(SInt, es)))
	fc.noteRange(name, elem)
	return name, es
}

func (fc *FnCtx) compBox(elem types.Type) (string, string) {
	es := fc.sortOf(elem)
	name := "B_" + identOf(shortTypeString(canonElem(elem)))
	fc.registerComp(name, arraySort(SPtr, es))
	fc.noteRange(name, elem)
	return name, es
}

func canonElem(t types.Type) types.Type {
	t = types.Unalias(t)
	if b, ok := t.Underlying().(*types.Basic); ok {
		if int(b.Kind()) < len(types.Typ) && types.Typ[b.Kind()] != nil {
			return types.Typ[b.Kind()]
		}
		return b
	}
	return t
}

func (fc *FnCtx) compChanClosed() string {
	fc.registerComp("CH_closed", arraySort(SPtr, SBool))
	return "CH_closed"
}

func (fc *FnCtx) compMap(m *types.Map) (dom, val string, ks, vs string) {
	ks, vs = fc.sortOf(m.Key()), fc.sortOf(m.Elem())
	id := identOf(shortTypeString(m.Key())) + "__" + identOf(shortTypeString(m.Elem()))
	dom, val = "MD_"+id, "MV_"+id
	fc.registerComp(dom, arraySort(SPtr, arraySort(ks, SBool)))
	fc.registerComp(val, arraySort(SPtr, arraySort(ks, vs)))
	fc.registerComp("MN_"+id, arraySort(SPtr, SInt))
	return
}

// fieldIDT returns the global id used in PField for (struct type, field index).
func (w *World) fieldIDT(st types.Type, i int) int {
	s, _ := isStruct(st)
	key := structName(st) + "." + s.Field(i).Name()
	if id, ok := w.fids[key]; ok {
		return id
	}
	id := len(w.fidRev)
	w.fids[key] = id
	w.fidRev = append(w.fidRev, fieldInfo{owner: structName(st), field: s.Field(i).Name(), ftype: s.Field(i).Type(), struc: s, idx: i, ownerT: st})
	return id
}

// registerStructs registers the fields of every named struct type of the loaded packages
// (and of struct types nested in them) so that pointer dispatch knows all candidates.
func (w *World) registerStructs() {
	var names []string
	for n := range w.pkgs {
		names = append(names, n)
	}
	sort.Strings(names)
	seen := map[string]bool{}
	var visit func(t types.Type)
	visit = func(t types.Type) {
		s, ok := isStruct(t)
		if !ok {
			return
		}
		if _, isTP := types.Unalias(t).(*types.TypeParam); isTP {
			return
		}
		k := structName(t)
		if seen[k] {
			return
		}
		seen[k] = true
		for i := 0; i < s.NumFields(); i++ {
			w.fieldIDT(t, i)
			visit(s.Field(i).Type())
		}
	}
	for _, n := range names {
		sc := w.pkgs[n].Pkg.Scope()
		for _, name := range sc.Names() {
			if tn, ok := sc.Lookup(name).(*types.TypeName); ok {
				visit(tn.Type())
			}
		}
	}
}

// sortedComps returns the component names in deterministic order.
func (fc *FnCtx) sortedComps() []string {
	cs := append([]string(nil), fc.compOrder...)
	sort.Strings(cs)
	return cs
}

// ---------------------------------------------------------------------------
// State

type State struct {
	locals map[*ssa.Alloc]Term
	heap   map[string]Term
	nextID Term
	live   Term
}

func (s *State) clone() *State {
	n := &State{locals: make(map[*ssa.Alloc]Term, len(s.locals)), heap: make(map[string]Term, len(s.heap)), nextID: s.nextID, live: s.live}
	for k, v := range s.locals {
		n.locals[k] = v
	}
	for k, v := range s.heap {
		n.heap[k] = v
	}
	return n
}

func (fc *FnCtx) comp(st *State, name string) Term {
	if fc.compHook != nil {
		if t, ok := fc.compHook(st, name); ok {
			return t
		}
	}
	if t, ok := st.heap[name]; ok {
		return t
	}
	// discovered late in this pass: placeholder, the pass is repeated.
	sortS := fc.comps[name]
	cname := name + "!late"
	if !fc.decl[cname] {
		fc.decl[cname] = true
		fc.emit(fmt.Sprintf("(declare-const %s %s)", cname, sortS))
	}
	t := mk(cname, sortS, nil)
	st.heap[name] = t
	fc.dirty = true
	return t
}

func (fc *FnCtx) assume(st *State, c Term) {
	if c.S == "true" {
		return
	}
	st.live = fc.define("live", tAnd(st.live, c))
}

// addObligation records "live => goal" and then assumes goal.
func (fc *FnCtx) addObligation(st *State, kind, name string, goal Term, pos token.Pos, descr string) {
	if goal.S == "true" && (kind == "safety" || kind == "nopanic") {
		return
	}
	// (a contract clause that is trivially true on the current code is still an obligation: it is
	// recorded in the baseline, so that a change which makes it non-trivial and false is a violation)
	full := funcKey(fc.fn) + "#" + name
	fc.oblNames[full]++
	if c := fc.oblNames[full]; c > 1 {
		full = fmt.Sprintf("%s~%d", full, c)
	}
	o := &Obligation{Name: full, Kind: kind, Func: funcKey(fc.fn), Pos: fc.posStr(pos), NDecl: len(fc.lines), Live: st.live.S, Goal: goal.S, Descr: descr}
	if fc.spec != nil {
		o.Props = fc.spec.Props
	}
	fc.obls = append(fc.obls, o)
	fc.assume(st, goal)
}
