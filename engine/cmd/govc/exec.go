package main

import (
	"fmt"
	"go/token"
	"go/types"
	"sort"
	"strings"

	"golang.org/x/tools/go/ssa"
)

type loopInfo struct {
	head    *ssa.BasicBlock
	blocks  map[*ssa.BasicBlock]bool
	ordinal int
	spec    *LoopSpec
	rangeIx *ssa.Alloc
	rangeInt *ssa.Alloc // hidden counter of a range-over-int loop
	headState *State
}

type retInfo struct {
	st   *State
	vals []Term
}

type closureVal struct {
	fn       *ssa.Function
	bindings []Term // addresses / values of free variables
	bindVals []ssa.Value
}

// Frame is one activation being executed symbolically (the function under contract or an
// inlined callee).
type Frame struct {
	fc        *FnCtx
	fn        *ssa.Function
	parent    *Frame
	vals      map[ssa.Value]Term
	tuples    map[ssa.Value][]Term
	promoted  map[*ssa.Alloc]bool
	entry     *State
	params    map[string]Term
	prefix    string
	depth     int
	closures  map[ssa.Value]*closureVal
	defers    []*ssa.CallCommon
	deferBlk  []*ssa.BasicBlock
	deferPos  []token.Pos
	rets      []*retInfo
	loops     map[*ssa.BasicBlock]*loopInfo
	isTop     bool
	freeVars  map[*ssa.FreeVar]Term
	callCount map[string]int
	spec      *FuncSpec
	phiEdge   map[phiEdgeKey]Term
	backStates map[*ssa.BasicBlock][]*State
	siteOrd   map[*ssa.CallCommon]int // ordinal of a call site among the calls of the same callee, in source order
	stackIDs  []Term                  // object ids of this activation's non-escaping local aggregates
	curBlock  *ssa.BasicBlock
	atCallArgs []Term
	callArgs   map[*ssa.CallCommon][]Term // argument values of the calls executed so far (for aftercall clauses)
}

func (fr *Frame) oblName(n string) string {
	if fr.prefix == "" {
		return n
	}
	return fr.prefix + n
}

func (fr *Frame) safety(st *State, kind string, goal Term, pos token.Pos, descr string) {
	if fr.spec != nil && fr.spec.Flags["nocheck"] != "" && strings.Contains(fr.spec.Flags["nocheck"], kind) {
		fr.fc.assume(st, goal)
		return
	}
	top := fr
	for top.parent != nil {
		top = top.parent
	}
	if top.spec != nil && top.spec.Flags["nosafety"] != "" {
		// "flag nilcheck=a,b": dereferences of the named parameters are still checked (a function
		// documented to tolerate a nil receiver/argument must test it before using it)
		checked := false
		if kind == "nil" && fr == top {
			for _, n := range strings.Split(top.spec.Flags["nilcheck"], ",") {
				if n != "" && goal.S == fmt.Sprintf("(not (is_PNull arg_%s))", identOf(n)) {
					checked = true
				}
			}
		}
		if !checked {
			fr.fc.assume(st, goal)
			return
		}
	}
	line := 0
	if pos.IsValid() {
		line = fr.fc.w.fset.Position(pos).Line
	}
	_ = line
	fr.callCount["safety:"+kind]++
	name := fmt.Sprintf("safe.%s.%d", kind, fr.callCount["safety:"+kind])
	fr.fc.addObligation(st, "safety", fr.oblName(name), goal, pos, descr)
}

// allocByName resolves a source variable name to its storage. With several variables of that
// name in the function, the one declared latest among those whose declaration dominates the
// program point 'at' is chosen (that is the one in scope there).
func (fr *Frame) allocByName(name string, at *ssa.BasicBlock) *ssa.Alloc {
	var first, best *ssa.Alloc
	for _, b := range fr.fn.Blocks {
		for _, in := range b.Instrs {
			a, ok := in.(*ssa.Alloc)
			if !ok || a.Comment != name {
				continue
			}
			if first == nil {
				first = a
			}
			if at != nil && b.Dominates(at) {
				if best == nil || a.Pos() > best.Pos() {
					best = a
				}
			}
		}
	}
	if best != nil {
		return best
	}
	return first
}

func (fr *Frame) loadAlloc(st *State, a *ssa.Alloc) Term {
	et := a.Type().(*types.Pointer).Elem()
	if fr.promoted[a] {
		if v, ok := st.locals[a]; ok {
			return v
		}
		return fr.fc.zero(et)
	}
	addr, ok := fr.vals[a]
	if !ok {
		panic(specErr("variable " + a.Comment + " is not in scope here"))
	}
	if isAggregate(et) {
		p := addr
		p.T = a.Type()
		return p
	}
	v := fr.fc.loadVal(st, addr, et)
	v.T = et
	return v
}

// ---------------------------------------------------------------------------
// CFG analysis

func computePromoted(fn *ssa.Function) map[*ssa.Alloc]bool {
	res := map[*ssa.Alloc]bool{}
	for _, b := range fn.Blocks {
		for _, in := range b.Instrs {
			a, ok := in.(*ssa.Alloc)
			if !ok {
				continue
			}
			et := a.Type().(*types.Pointer).Elem()
			if isAggregate(et) {
				continue
			}
			okAll := true
			if a.Referrers() != nil {
				for _, r := range *a.Referrers() {
					switch r := r.(type) {
					case *ssa.Store:
						if r.Addr != a || r.Val == a {
							okAll = false
						}
					case *ssa.UnOp:
						if r.Op != token.MUL {
							okAll = false
						}
					case *ssa.DebugRef:
					default:
						okAll = false
					}
				}
			}
			if okAll {
				res[a] = true
			}
		}
	}
	return res
}

func findLoops(fn *ssa.Function) map[*ssa.BasicBlock]*loopInfo {
	loops := map[*ssa.BasicBlock]*loopInfo{}
	for _, b := range fn.Blocks {
		for _, s := range b.Succs {
			if s.Dominates(b) {
				li := loops[s]
				if li == nil {
					li = &loopInfo{head: s, blocks: map[*ssa.BasicBlock]bool{s: true}}
					loops[s] = li
				}
				// natural loop: all blocks that reach b without passing through s
				var stack []*ssa.BasicBlock
				if !li.blocks[b] {
					li.blocks[b] = true
					stack = append(stack, b)
				}
				for len(stack) > 0 {
					x := stack[len(stack)-1]
					stack = stack[:len(stack)-1]
					for _, p := range x.Preds {
						if !li.blocks[p] {
							li.blocks[p] = true
							stack = append(stack, p)
						}
					}
				}
			}
		}
	}
	var heads []*ssa.BasicBlock
	for h := range loops {
		heads = append(heads, h)
	}
	sort.Slice(heads, func(i, j int) bool { return heads[i].Index < heads[j].Index })
	for i, h := range heads {
		loops[h].ordinal = i + 1
		// range index variable: alloc named rangeindex stored in head block
		for _, in := range h.Instrs {
			if s, ok := in.(*ssa.Store); ok {
				if a, ok := s.Addr.(*ssa.Alloc); ok && a.Comment == "rangeindex" {
					loops[h].rangeIx = a
				}
			}
			if u, ok := in.(*ssa.UnOp); ok && u.Op == token.MUL {
				if a, ok := u.X.(*ssa.Alloc); ok && a.Comment == "rangeint.iter" {
					loops[h].rangeInt = a
				}
			}
		}
	}
	return loops
}

func topoOrder(fn *ssa.Function) []*ssa.BasicBlock {
	visited := map[*ssa.BasicBlock]bool{}
	var post []*ssa.BasicBlock
	var dfs func(b *ssa.BasicBlock)
	dfs = func(b *ssa.BasicBlock) {
		visited[b] = true
		for _, s := range b.Succs {
			if s.Dominates(b) { // back edge
				continue
			}
			if !visited[s] {
				dfs(s)
			}
		}
		post = append(post, b)
	}
	if len(fn.Blocks) > 0 {
		dfs(fn.Blocks[0])
	}
	for i, j := 0, len(post)-1; i < j; i, j = i+1, j-1 {
		post[i], post[j] = post[j], post[i]
	}
	return post
}

// ---------------------------------------------------------------------------
// state merging

func (fc *FnCtx) merge(states []*State, label string) *State {
	if len(states) == 1 {
		return states[0].clone()
	}
	res := &State{locals: map[*ssa.Alloc]Term{}, heap: map[string]Term{}}
	var lives []Term
	for _, s := range states {
		lives = append(lives, s.live)
	}
	res.live = fc.define("live", tOr(lives...))
	mergeOne := func(name, sortS string, t types.Type, get func(*State) (Term, bool)) (Term, bool) {
		var first Term
		have := false
		same := true
		for _, s := range states {
			v, ok := get(s)
			if !ok {
				continue
			}
			if !have {
				first, have = v, true
			} else if v.S != first.S {
				same = false
			}
		}
		if !have {
			return Term{}, false
		}
		if same {
			return first, true
		}
		m := fc.fresh("m_"+name, first.Sort, first.T)
		for _, s := range states {
			v, ok := get(s)
			if !ok {
				continue
			}
			fc.emit(fmt.Sprintf("(assert (=> %s (= %s %s)))", s.live.S, m.S, v.S))
		}
		return m, true
	}
	// locals
	seen := map[*ssa.Alloc]bool{}
	var allocs []*ssa.Alloc
	for _, s := range states {
		for a := range s.locals {
			if !seen[a] {
				seen[a] = true
				allocs = append(allocs, a)
			}
		}
	}
	sort.Slice(allocs, func(i, j int) bool { return allocs[i].Pos() < allocs[j].Pos() || (allocs[i].Pos() == allocs[j].Pos() && allocs[i].Name() < allocs[j].Name()) })
	for _, a := range allocs {
		a := a
		n := a.Comment
		if n == "" {
			n = a.Name()
		}
		if v, ok := mergeOne(identOf(n), "", nil, func(s *State) (Term, bool) { v, ok := s.locals[a]; return v, ok }); ok {
			res.locals[a] = v
		}
	}
	for _, c := range fc.sortedComps() {
		c := c
		if v, ok := mergeOne(c, "", nil, func(s *State) (Term, bool) { v, ok := s.heap[c]; return v, ok }); ok {
			res.heap[c] = v
		}
	}
	v, _ := mergeOne("nid", SInt, nil, func(s *State) (Term, bool) { return s.nextID, true })
	res.nextID = v
	return res
}

// ---------------------------------------------------------------------------
// running a function body

func (fc *FnCtx) newFrame(fn *ssa.Function, parent *Frame) *Frame {
	fr := &Frame{fc: fc, fn: fn, parent: parent, vals: map[ssa.Value]Term{}, tuples: map[ssa.Value][]Term{},
		params: map[string]Term{}, closures: map[ssa.Value]*closureVal{}, freeVars: map[*ssa.FreeVar]Term{}, callCount: map[string]int{}, phiEdge: map[phiEdgeKey]Term{}, backStates: map[*ssa.BasicBlock][]*State{}}
	fr.promoted = computePromoted(fn)
	fr.loops = findLoops(fn)
	fr.siteOrd = map[*ssa.CallCommon]int{}
	type site struct {
		c   *ssa.CallCommon
		pos token.Pos
		key string
		seq int
	}
	var sites []site
	seq := 0
	for _, b := range fn.Blocks {
		for _, in := range b.Instrs {
			ci, ok := in.(ssa.CallInstruction)
			if !ok {
				continue
			}
			c := ci.Common()
			key := ""
			if bi, isB := c.Value.(*ssa.Builtin); isB {
				key = "builtin." + bi.Name()
			} else {
				key, _ = fr.calleeKey(c)
				if key == "" {
					if dn := dynCallName(c.Value); dn != "" {
						key = "dyn." + dn // calls of a named function value: "atcall yield@1 ..."
					}
				}
			}
			seq++
			sites = append(sites, site{c, in.Pos(), key, seq})
		}
	}
	sort.SliceStable(sites, func(i, j int) bool {
		if sites[i].pos != sites[j].pos {
			return sites[i].pos < sites[j].pos
		}
		return sites[i].seq < sites[j].seq
	})
	cnt := map[string]int{}
	for _, s := range sites {
		cnt[s.key]++
		fr.siteOrd[s.c] = cnt[s.key]
	}
	if parent != nil {
		fr.depth = parent.depth + 1
	}
	return fr
}

// runBody executes the body from state st (whose live is the path condition at entry) and
// returns the merged exit state and result values; ok=false if no return is reachable.
func (fr *Frame) runBody(st *State) (*State, []Term, bool) {
	fc := fr.fc
	fn := fr.fn
	if len(fn.Blocks) == 0 {
		fc.unsupp(fn.Pos(), "function %s has no body", funcKey(fn))
		return st, nil, false
	}
	fr.entry = st.clone()
	in := map[*ssa.BasicBlock][]*State{}
	in[fn.Blocks[0]] = []*State{st}
	order := topoOrder(fn)
	for _, b := range order {
		states := in[b]
		if len(states) == 0 {
			continue
		}
		cur := fc.merge(states, fmt.Sprintf("b%d", b.Index))
		if cur.live.S == "false" {
			continue
		}
		if li := fr.loops[b]; li != nil {
			fr.enterLoop(li, cur)
		}
		fr.execBlock(b, cur, in)
	}
	fr.checkBackEdges()
	if len(fr.rets) == 0 {
		return nil, nil, false
	}
	var rs []*State
	for _, r := range fr.rets {
		rs = append(rs, r.st)
	}
	exit := fc.merge(rs, "exit")
	nres := len(fr.rets[0].vals)
	results := make([]Term, nres)
	for i := 0; i < nres; i++ {
		same := true
		for _, r := range fr.rets {
			if r.vals[i].S != fr.rets[0].vals[i].S {
				same = false
			}
		}
		if same {
			results[i] = fr.rets[0].vals[i]
			continue
		}
		m := fc.fresh("ret", fr.rets[0].vals[i].Sort, fr.rets[0].vals[i].T)
		for _, r := range fr.rets {
			fc.emit(fmt.Sprintf("(assert (=> %s (= %s %s)))", r.st.live.S, m.S, r.vals[i].S))
		}
		results[i] = m
	}
	return exit, results, true
}

func (fr *Frame) invEnv(li *loopInfo, st *State) *Env {
	env := &Env{fc: fr.fc, fr: fr, st: st, old: fr.top().entry, vars: map[string]Term{}, pkgName: fr.fn.Pkg.Pkg.Name(), at: li.head}
	for k, v := range fr.params {
		env.vars["old$"+k] = v
	}
	if li.rangeIx != nil {
		if v, ok := st.locals[li.rangeIx]; ok {
			env.vars["$i"] = mk(fmt.Sprintf("(+ %s 1)", v.S), SInt, types.Typ[types.Int])
		}
	}
	if li.rangeInt != nil {
		if v, ok := st.locals[li.rangeInt]; ok {
			env.vars["$i"] = v
		}
	}
	for _, in := range li.head.Instrs {
		if nx, ok := in.(*ssa.Next); ok && !nx.IsString {
			if r, ok := nx.Iter.(*ssa.Range); ok {
				if _, isMap := r.X.Type().Underlying().(*types.Map); isMap {
					if _, ok := fr.fc.comps[compRangeIter]; ok {
						// $n: the number of keys the range-over-map loop has yielded so far
						env.vars["$n"] = tSel(fr.fc.comp(st, compRangeIter), rangeIterKey(r), SInt, types.Typ[types.Int])
					}
					sc, ks := fr.fc.rangeSeenComp(r.X.Type().Underlying().(*types.Map))
					// $seen[k]: key k has been yielded by the range-over-map loop
					env.vars["$seen"] = tSel(fr.fc.comp(st, sc), rangeIterKey(r), arraySort(ks, SBool), nil)
				}
			}
		}
	}
	return env
}

func (fr *Frame) top() *Frame {
	t := fr
	for t.parent != nil {
		t = t.parent
	}
	return t
}

func (fr *Frame) loopSpec(li *loopInfo) *LoopSpec {
	if fr.spec == nil {
		return nil
	}
	return fr.spec.Loops[li.ordinal]
}

func (fr *Frame) enterLoop(li *loopInfo, st *State) {
	fc := fr.fc
	ls := fr.loopSpec(li)
	if ls != nil {
		env := fr.invEnv(li, st)
		for k, inv := range ls.Invariants {
			t, err := fc.evalGoal(env, inv)
			if err != nil {
				fc.unsupp(li.head.Instrs[0].Pos(), "loop %d invariant %d: %v", li.ordinal, k+1, err)
				continue
			}
			name := fmt.Sprintf("loop%d.inv%d.entry", li.ordinal, k+1)
			if inv.Label != "" {
				name = fmt.Sprintf("loop%d.%s.entry", li.ordinal, inv.Label)
			}
			fc.addObligation(st, "invariant", fr.oblName(name), t, li.head.Instrs[0].Pos(), inv.Src)
		}
	}
	// havoc everything the loop may modify
	locals, comps, all := fr.loopWrites(li)
	for _, a := range locals {
		et := a.Type().(*types.Pointer).Elem()
		n := a.Comment
		if n == "" {
			n = a.Name()
		}
		v := fc.fresh("lv_"+identOf(n), fc.sortOf(et), et)
		st.locals[a] = v
		fc.assume(st, fc.typeInv(v, et, 0))
	}
	oldNext := st.nextID
	preLoop := st.clone()
	st.nextID = fc.fresh("nid", SInt, nil)
	fc.assume(st, mk(fmt.Sprintf("(>= %s %s)", st.nextID.S, oldNext.S), SBool, nil))
	if all {
		// everything, except that ghost protocol state is changed only by contracts that say so
		explicit := map[string]bool{}
		for _, c := range comps {
			explicit[strings.TrimPrefix(c, "~")] = true
		}
		comps = nil
		for _, c := range fc.sortedComps() {
			if strings.HasPrefix(c, "GH_") && !explicit[c] {
				continue
			}
			if fc.w.isFinalComp(c) && !explicit[c] {
				continue
			}
			comps = append(comps, c)
		}
	}
	fr.havocComps(st, comps, preLoop)
	for _, a := range locals {
		et := a.Type().(*types.Pointer).Elem()
		fc.assume(st, fc.allocInv(st.locals[a], et, st.nextID, 0))
	}
	if ls != nil {
		env := fr.invEnv(li, st)
		for _, inv := range ls.Invariants {
			t, err := fc.evalClause(env, inv)
			if err == nil {
				fc.assume(st, t)
			}
		}
	}
	li.headState = st.clone()
	fc.note(fmt.Sprintf("loop %d of %s is at %s", li.ordinal, funcKey(fr.fn), fc.posStr(loopPos(li))))
}

func loopPos(li *loopInfo) token.Pos {
	for _, in := range li.head.Instrs {
		if in.Pos().IsValid() {
			return in.Pos()
		}
	}
	for b := range li.blocks {
		for _, in := range b.Instrs {
			if in.Pos().IsValid() {
				return in.Pos()
			}
		}
	}
	return token.NoPos
}

// havocComps havocs a write set; components marked "~" are written only at locations
// allocated after 'bound', so everything that existed before keeps its value.
func (fr *Frame) havocComps(st *State, comps []string, pre *State) {
	fc := fr.fc
	for _, c := range comps {
		if !strings.HasPrefix(c, "~") {
			fr.havocComp(st, c)
			continue
		}
		name := c[1:]
		if _, ok := fc.comps[name]; !ok {
			continue
		}
		old := fc.comp(pre, name)
		fr.havocComp(st, name)
		cur := st.heap[name]
		fc.usesRootid = true
		fc.emit(fmt.Sprintf("(assert (forall ((q Ptr)) (! (=> (< (rootid q) %s) (= (select %s q) (select %s q))) :pattern ((select %s q)))))", pre.nextID.S, cur.S, old.S, cur.S))
	}
}

// protectStack states that a call cannot have changed the non-escaping locals of the
// activations on the current inlining chain.
func (fr *Frame) protectStack(st *State, pre *State, comps []string) {
	fc := fr.fc
	var ids []Term
	for f := fr; f != nil; f = f.parent {
		ids = append(ids, f.stackIDs...)
	}
	if len(ids) == 0 {
		return
	}
	for _, c := range comps {
		name := strings.TrimPrefix(c, "~")
		if strings.HasPrefix(name, "FX_") {
			continue
		}
		cur, okc := st.heap[name]
		old, oko := pre.heap[name]
		if !okc || !oko || cur.S == old.S || !fc.declConst[cur.S] {
			continue
		}
		var conds []string
		for _, id := range ids {
			conds = append(conds, fmt.Sprintf("(= (p_root q) %s)", id.S))
		}
		c := conds[0]
		if len(conds) > 1 {
			c = "(or " + strings.Join(conds, " ") + ")"
		}
		fc.emit(fmt.Sprintf("(assert (forall ((q Ptr)) (! (=> %s (= (select %s q) (select %s q))) :pattern ((select %s q)))))", c, cur.S, old.S, cur.S))
	}
}

func (fr *Frame) havocComp(st *State, c string) {
	fc := fr.fc
	if strings.HasPrefix(c, "FX_") || strings.HasPrefix(c, "~") {
		return // effect markers are not heap components
	}
	sortS := fc.comps[c]
	v := fc.fresh(c, sortS, nil)
	st.heap[c] = v
	fc.heapAxioms(v, c, st.nextID)
}

// heapAxioms states that pointers stored in component version v refer to objects allocated
// before bound, and that stored values respect their types.
func (fc *FnCtx) heapAxioms(v Term, c string, bound Term) {
	sortS := fc.comps[c]
	inner := strings.TrimSuffix(strings.TrimPrefix(sortS, "(Array Ptr "), ")")
	fc.usesRootid = true
	switch {
	case inner == SPtr:
		fc.emit(fmt.Sprintf("(assert (forall ((q Ptr)) (! (< (rootid (select %s q)) %s) :pattern ((select %s q)))))", v.S, bound.S, v.S))
	case inner == SSlice:
		fc.emit(fmt.Sprintf("(assert (forall ((q Ptr)) (! (and (wfslice (select %s q)) (< (rootid (sl_arr (select %s q))) %s)) :pattern ((select %s q)))))", v.S, v.S, bound.S, v.S))
	case inner == "(Array Int Ptr)":
		fc.emit(fmt.Sprintf("(assert (forall ((q Ptr) (i Int)) (! (< (rootid (select (select %s q) i)) %s) :pattern ((select (select %s q) i)))))", v.S, bound.S, v.S))
	case inner == "(Array Int Slice)":
		fc.emit(fmt.Sprintf("(assert (forall ((q Ptr) (i Int)) (! (and (wfslice (select (select %s q) i)) (< (rootid (sl_arr (select (select %s q) i))) %s)) :pattern ((select (select %s q) i)))))", v.S, v.S, bound.S, v.S))
	}
	_ = inner
}

func (fr *Frame) execBlock(b *ssa.BasicBlock, st *State, in map[*ssa.BasicBlock][]*State) {
	fc := fr.fc
	fr.curBlock = b
	for _, instr := range b.Instrs {
		switch x := instr.(type) {
		case *ssa.If:
			c := fr.val(st, x.Cond)
			fr.edge(b, b.Succs[0], st, c, in)
			fr.edge(b, b.Succs[1], st, tNot(c), in)
			return
		case *ssa.Jump:
			fr.edge(b, b.Succs[0], st, tBool(true), in)
			return
		case *ssa.Return:
			var vs []Term
			for _, r := range x.Results {
				vs = append(vs, fr.val(st, r))
			}
			fr.rets = append(fr.rets, &retInfo{st: st, vals: vs})
			return
		case *ssa.Panic:
			fr.atPanic(st, x.Pos())
			if fr.top().spec == nil || !fr.top().spec.MayPanic {
				fr.callCount["panic"]++
				fc.addObligation(st, "nopanic", fr.oblName(fmt.Sprintf("nopanic.%d", fr.callCount["panic"])), tBool(false), x.Pos(), "explicit panic must be unreachable")
			}
			return
		default:
			fr.execInstr(st, instr)
			if st.live.S == "false" {
				return
			}
		}
	}
}

func (fr *Frame) edge(from, to *ssa.BasicBlock, st *State, cond Term, in map[*ssa.BasicBlock][]*State) {
	fc := fr.fc
	ns := st.clone()
	fc.assume(ns, cond)
	if ns.live.S == "false" {
		return
	}
	if to.Dominates(from) {
		// back edge: collected and checked once per loop (see checkBackEdges)
		fr.backStates[to] = append(fr.backStates[to], ns)
		return
	}
	fr.phiEdge[phiEdgeKey{from, to}] = ns.live
	in[to] = append(in[to], ns)
}

// checkBackEdges checks that every loop invariant is re-established on the back edges.
func (fr *Frame) checkBackEdges() {
	fc := fr.fc
	var heads []*ssa.BasicBlock
	for h := range fr.backStates {
		heads = append(heads, h)
	}
	sort.Slice(heads, func(i, j int) bool { return heads[i].Index < heads[j].Index })
	for _, to := range heads {
		li := fr.loops[to]
		ls := fr.loopSpec(li)
		if ls == nil {
			continue
		}
		// one obligation per back edge and invariant: single-path VCs are much easier for the solvers
		for ei, ns := range fr.backStates[to] {
			env := fr.invEnv(li, ns)
			for k, inv := range ls.Invariants {
				t, err := fc.evalGoal(env, inv)
				if err != nil {
					fc.unsupp(to.Instrs[0].Pos(), "loop %d invariant %d: %v", li.ordinal, k+1, err)
					continue
				}
				name := fmt.Sprintf("loop%d.inv%d.preserved", li.ordinal, k+1)
				if inv.Label != "" {
					name = fmt.Sprintf("loop%d.%s.preserved", li.ordinal, inv.Label)
				}
				if len(fr.backStates[to]) > 1 {
					name += fmt.Sprintf(".e%d", ei+1)
				}
				fc.addObligation(ns, "invariant", fr.oblName(name), t, to.Instrs[0].Pos(), inv.Src)
			}
			for k, be := range ls.BackEdge {
				env.head = li.headState
				t, err := fc.evalGoal(env, be)
				if err != nil {
					fc.unsupp(to.Instrs[0].Pos(), "loop %d backedge clause %d: %v", li.ordinal, k+1, err)
					continue
				}
				name := fmt.Sprintf("loop%d.backedge%d", li.ordinal, k+1)
				if be.Label != "" {
					name = fmt.Sprintf("loop%d.backedge.%s", li.ordinal, be.Label)
				}
				if len(fr.backStates[to]) > 1 {
					name += fmt.Sprintf(".e%d", ei+1)
				}
				fc.addObligation(ns, "iteration", fr.oblName(name), t, to.Instrs[0].Pos(), be.Src)
			}
		}
	}
}

// val returns the term of an SSA value in the current state.
func (fr *Frame) val(st *State, v ssa.Value) Term {
	fc := fr.fc
	switch x := v.(type) {
	case *ssa.Const:
		if x.Value == nil {
			z := fc.zero(x.Type())
			z.T = x.Type()
			return z
		}
		return fc.constTerm(x.Value, x.Type())
	case *ssa.Global:
		return fc.globalAddr(x)
	case *ssa.Function:
		return fc.funcValue(x)
	case *ssa.FreeVar:
		if t, ok := fr.freeVars[x]; ok {
			return t
		}
		fc.n++
		name := fmt.Sprintf("fv_%s!%d", identOf(x.Name()), fc.n)
		fc.emit(fmt.Sprintf("(declare-const %s %s)", name, fc.sortOf(x.Type())))
		t := mk(name, fc.sortOf(x.Type()), x.Type())
		if et := elemTypeOfPtr(x.Type()); et != nil && !isAggregate(et) {
			t.Sh = &PShape{Kind: 'o'}
		}
		fr.freeVars[x] = t
		return t
	case *ssa.Builtin:
		return mk("0", SInt, nil)
	}
	if t, ok := fr.vals[v]; ok {
		return t
	}
	fc.unsupp(v.Pos(), "value %s (%T) used before definition", v.Name(), v)
	t := fc.fresh("undef", fc.sortOf(v.Type()), v.Type())
	fr.vals[v] = t
	return t
}

func (fc *FnCtx) globalAddr(g *ssa.Global) Term {
	name := "g$" + identOf(g.Pkg.Pkg.Name()+"_"+g.Name())
	if !fc.decl["global:"+name] {
		fc.decl["global:"+name] = true
		fc.emit(fmt.Sprintf("(define-fun %s () Ptr (PObj (- %d)))", name, 1000+hashString(name)%100000))
	}
	t := mk(name, SPtr, g.Type())
	t.Sh = &PShape{Kind: 'o'}
	return t
}

func (fc *FnCtx) loadGlobal(st *State, g *ssa.Global) Term {
	et := g.Type().(*types.Pointer).Elem()
	key := g.Pkg.Pkg.Name() + "." + g.Name()
	if fc.w.specs.Consts[key] {
		name := "gc$" + identOf(g.Pkg.Pkg.Name()+"_"+g.Name())
		if !fc.decl["gconst:"+name] {
			fc.decl["gconst:"+name] = true
			fc.emit(fmt.Sprintf("(declare-const %s %s)", name, fc.sortOf(et)))
		}
		return mk(name, fc.sortOf(et), et)
	}
	v := fc.loadVal(st, fc.globalAddr(g), et)
	v.T = et
	return v
}

func (fc *FnCtx) funcValue(f *ssa.Function) Term {
	name := "fn$" + identOf(funcKey(f))
	if !fc.decl["fn:"+name] {
		fc.decl["fn:"+name] = true
		fc.emit(fmt.Sprintf("(define-fun %s () Int %d)", name, 1+hashString(name)%1000000))
	}
	return mk(name, SInt, f.Type())
}
