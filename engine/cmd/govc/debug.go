package main

import (
	"fmt"
	"sort"
)

func cmdFinal(args []string) {
	w := mustLoad("/repo")
	var ks []string
	for k := range w.finalFields {
		ks = append(ks, k)
	}
	sort.Strings(ks)
	for _, k := range ks {
		fmt.Println(k)
	}
}
