package main

import (
	"fmt"
	"os"
	"sort"
)

func cmdFinal(args []string) {
	w := mustLoad("/repo")
	var ks []string
	for k := range w.finalFields {
		ks = append(ks, k)
	}
	sort.Strings(ks)
	for _, k := range ks {
		fmt.Println(k)
	}
}

func cmdDump(args []string) {
	w := mustLoad("/repo")
	for _, k := range args {
		if f := w.funcs[k]; f != nil {
			f.WriteTo(os.Stdout)
		} else {
			fmt.Println("not found:", k)
		}
	}
}
