package main

import (
	"fmt"
	"go/constant"
	"go/token"
	"go/types"
	"math/big"
	"strings"
)

// constTerm converts a Go constant to a term of the given type.
func (fc *FnCtx) constTerm(v constant.Value, t types.Type) Term {
	if v == nil {
		return fc.zero(t)
	}
	switch v.Kind() {
	case constant.Bool:
		return mk(fmt.Sprint(constant.BoolVal(v)), SBool, t)
	case constant.Int:
		if fc.sortOf(t) == SReal {
			return mk(bigLit(v.ExactString())+".0", SReal, t)
		}
		return mk(bigLit(v.ExactString()), SInt, t)
	case constant.Float:
		if fc.sortOf(t) == SInt {
			i, _ := constant.Int64Val(constant.ToInt(v))
			return mk(intLit(i), SInt, t)
		}
		r, _ := new(big.Rat).SetString(v.ExactString())
		if r == nil {
			f, _ := constant.Float64Val(v)
			r = new(big.Rat).SetFloat64(f)
		}
		s := fmt.Sprintf("(/ %s.0 %s.0)", r.Num().String(), r.Denom().String())
		if r.Sign() < 0 {
			s = fmt.Sprintf("(- (/ %s.0 %s.0))", new(big.Int).Neg(r.Num()).String(), r.Denom().String())
		}
		return mk(s, SReal, t)
	case constant.String:
		return fc.stringConst(constant.StringVal(v), t)
	}
	return fc.zero(t)
}

// stringConst yields a slice-like term for a string literal: a dedicated constant array with
// known length and bytes.
func (fc *FnCtx) stringConst(s string, t types.Type) Term {
	key := "strconst:" + s
	name := fmt.Sprintf("str$%x", hashString(s))
	if !fc.decl[key] {
		fc.decl[key] = true
		fc.emit(fmt.Sprintf("(declare-const %s Slice)", name))
		fc.emit(fmt.Sprintf("(assert (and (= (sl_len %s) %d) (= (sl_cap %s) %d) (= (sl_off %s) 0) (= (sl_arr %s) (PObj (- %d)))))", name, len(s), name, len(s), name, name, 1000000+int(hashString(s)%1000000)))
	}
	return mk(name, SSlice, t)
}

func hashString(s string) uint32 {
	var h uint32 = 2166136261
	for i := 0; i < len(s); i++ {
		h ^= uint32(s[i])
		h *= 16777619
	}
	return h
}

func basicOf(t types.Type) *types.Basic {
	if t == nil {
		return nil
	}
	b, _ := types.Unalias(t).Underlying().(*types.Basic)
	return b
}

// wrap reduces a mathematical integer to the range of the basic integer type t.
func wrapInt(v Term, t types.Type, force bool) Term {
	b := basicOf(t)
	if b == nil || b.Info()&types.IsInteger == 0 {
		return v
	}
	bits, signed := intBits(b)
	if bits == 0 || (bits == 64 && !force) {
		return v
	}
	m := pow2str(bits)
	if !signed {
		return mk(fmt.Sprintf("(mod %s %s)", v.S, m), SInt, t)
	}
	h := pow2str(bits - 1)
	return mk(fmt.Sprintf("(- (mod (+ %s %s) %s) %s)", v.S, h, m, h), SInt, t)
}

func pow2Term(s Term, max int) Term {
	// 2^s for 0 <= s <= max as an ite chain
	r := pow2str(max)
	for i := max - 1; i >= 0; i-- {
		r = fmt.Sprintf("(ite (= %s %d) %s %s)", s.S, i, pow2str(i), r)
	}
	return mk(r, SInt, nil)
}

func isConstInt(t Term) (int64, bool) {
	s := t.S
	neg := false
	if strings.HasPrefix(s, "(- ") && strings.HasSuffix(s, ")") {
		neg = true
		s = s[3 : len(s)-1]
	}
	if len(s) == 0 || len(s) > 18 {
		return 0, false
	}
	var v int64
	for _, c := range s {
		if c < '0' || c > '9' {
			return 0, false
		}
		v = v*10 + int64(c-'0')
	}
	if neg {
		v = -v
	}
	return v, true
}

func bitAt(v Term, i int) string {
	if i == 0 {
		return fmt.Sprintf("(mod %s 2)", v.S)
	}
	return fmt.Sprintf("(mod (div %s %s) 2)", v.S, pow2str(i))
}

// bitwise encodes x op y for unsigned values of at most `bits` bits by bit decomposition.
func bitwise(op token.Token, x, y Term, bits int) Term {
	var parts []string
	for i := 0; i < bits; i++ {
		bx, by := bitAt(x, i), bitAt(y, i)
		var c string
		switch op {
		case token.AND:
			c = fmt.Sprintf("(and (= %s 1) (= %s 1))", bx, by)
		case token.OR:
			c = fmt.Sprintf("(or (= %s 1) (= %s 1))", bx, by)
		case token.XOR:
			c = fmt.Sprintf("(distinct %s %s)", bx, by)
		case token.AND_NOT:
			c = fmt.Sprintf("(and (= %s 1) (= %s 0))", bx, by)
		}
		parts = append(parts, fmt.Sprintf("(ite %s %s 0)", c, pow2str(i)))
	}
	return mk("(+ "+strings.Join(parts, " ")+")", SInt, x.T)
}

// binop translates a Go binary operation on already translated operands.
func (fc *FnCtx) binop(op token.Token, x, y Term, xt, yt, rt types.Type, pos token.Pos, st *State, fr *Frame) Term {
	xs := fc.sortOf(xt)
	switch op {
	case token.EQL, token.NEQ:
		var r Term
		switch {
		case xs == SSlice && basicOf(xt) == nil:
			// slice compared with nil
			other := y
			if x.S == tNilSlice.S {
				other = y
			} else {
				other = x
			}
			r = mk(fmt.Sprintf("(is_PNull (sl_arr %s))", other.S), SBool, nil)
		case xs == SSlice: // strings: content equality, approximated by uninterpreted streq
			fc.declareOnce("streq", "(declare-fun streq (Slice Slice) Bool)\n(assert (forall ((a Slice)) (streq a a)))\n(assert (forall ((a Slice) (b Slice)) (=> (streq a b) (= (sl_len a) (sl_len b)))))\n(assert (forall ((a Slice) (b Slice)) (= (streq a b) (streq b a))))")
			fc.note("string equality is an uninterpreted equivalence (reflexive, symmetric, equal lengths)")
			r = mk(app("streq", x.S, y.S), SBool, nil)
		case xs == SPtr && (x.S == "PNull" || y.S == "PNull"):
			o := x
			if x.S == "PNull" {
				o = y
			}
			r = mk(fmt.Sprintf("(is_PNull %s)", o.S), SBool, nil)
		default:
			r = tEq(x, y)
		}
		if op == token.NEQ {
			return tNot(r)
		}
		return r
	case token.LSS, token.LEQ, token.GTR, token.GEQ:
		o := map[token.Token]string{token.LSS: "<", token.LEQ: "<=", token.GTR: ">", token.GEQ: ">="}[op]
		if xs == SSlice {
			fc.declareOnce("strlt", "(declare-fun strcmp (Slice Slice) Int)")
			return mk(fmt.Sprintf("(%s (strcmp %s %s) 0)", o, x.S, y.S), SBool, nil)
		}
		return mk(app(o, x.S, y.S), SBool, nil)
	case token.LAND:
		return tAnd(x, y)
	case token.LOR:
		return tOr(x, y)
	}
	if xs == SReal {
		o := map[token.Token]string{token.ADD: "+", token.SUB: "-", token.MUL: "*", token.QUO: "/"}[op]
		if o == "" {
			fc.unsupp(pos, "float operator %s", op)
			return fc.fresh("fop", SReal, rt)
		}
		return mk(app(o, x.S, y.S), SReal, rt)
	}
	if xs == SSlice && op == token.ADD {
		// string concatenation: abstract
		r := fc.fresh("strcat", SSlice, rt)
		fc.assume(st, mk(fmt.Sprintf("(and (wfslice %s) (= (sl_len %s) (+ (sl_len %s) (sl_len %s))))", r.S, r.S, x.S, y.S), SBool, nil))
		fc.note("string concatenation abstracted to its length")
		return r
	}
	b := basicOf(rt)
	bits, signed := 64, true
	if b != nil {
		bits, signed = intBits(b)
	}
	switch op {
	case token.ADD:
		return wrapInt(mk(app("+", x.S, y.S), SInt, rt), rt, false)
	case token.SUB:
		return wrapInt(mk(app("-", x.S, y.S), SInt, rt), rt, false)
	case token.MUL:
		return wrapInt(mk(app("*", x.S, y.S), SInt, rt), rt, false)
	case token.QUO:
		if fr != nil {
			fr.safety(st, "div", tNot(tEq(y, tInt(0))), pos, "division by zero")
		}
		if !signed {
			return mk(app("div", x.S, y.S), SInt, rt)
		}
		fc.declareOnce("tdiv", tdivDef)
		return mk(app("tdiv", x.S, y.S), SInt, rt)
	case token.REM:
		if fr != nil {
			fr.safety(st, "div", tNot(tEq(y, tInt(0))), pos, "division by zero")
		}
		if !signed {
			return mk(app("mod", x.S, y.S), SInt, rt)
		}
		fc.declareOnce("tdiv", tdivDef)
		return mk(app("tmod", x.S, y.S), SInt, rt)
	case token.SHL:
		if c, ok := isConstInt(y); ok && c >= 0 && c < 64 {
			r := wrapInt(mk(fmt.Sprintf("(* %s %s)", x.S, pow2str(int(c))), SInt, rt), rt, true)
			w := bits
			if w == 0 {
				w = 64
			}
			m := new(big.Int).Lsh(maskOf(x, xt), uint(c))
			m.And(m, widthMask(w))
			r.Mask = m
			return r
		}
		p := pow2Term(y, 63)
		return wrapInt(mk(fmt.Sprintf("(ite (> %s 63) 0 (* %s %s))", y.S, x.S, p.S), SInt, rt), rt, true)
	case token.SHR:
		if c, ok := isConstInt(y); ok && c >= 0 && c < 64 {
			return mk(fmt.Sprintf("(div %s %s)", x.S, pow2str(int(c))), SInt, rt)
		}
		p := pow2Term(y, 63)
		if signed {
			return mk(fmt.Sprintf("(ite (> %s 63) (ite (< %s 0) (- 1) 0) (div %s %s))", y.S, x.S, x.S, p.S), SInt, rt)
		}
		return mk(fmt.Sprintf("(ite (> %s 63) 0 (div %s %s))", y.S, x.S, p.S), SInt, rt)
	case token.AND, token.OR, token.XOR, token.AND_NOT:
		if op == token.AND {
			// AND with an arbitrary non-negative constant: sum over the runs of one-bits
			for _, pair := range [][2]Term{{x, y}, {y, x}} {
				if c, ok := bigConst(pair[1]); ok && c.Sign() >= 0 && c.BitLen() <= 64 {
					r := andConst(pair[0], c)
					r.T = rt
					m := new(big.Int).And(maskOf(pair[0], xt), c)
					r.Mask = m
					return r
				}
			}
		}
		if op == token.OR || op == token.XOR {
			mx, my := maskOf(x, xt), maskOf(y, yt)
			if new(big.Int).And(mx, my).Sign() == 0 {
				// no common bit can be set: OR and XOR are addition
				r := mk(app("+", x.S, y.S), SInt, rt)
				r.Mask = new(big.Int).Or(mx, my)
				return r
			}
		}
		// constant masks of the form 2^k-1
		if op == token.AND {
			for _, pair := range [][2]Term{{x, y}, {y, x}} {
				if c, ok := isConstInt(pair[1]); ok && c >= 0 && (c&(c+1)) == 0 {
					if !signed || true {
						return mk(fmt.Sprintf("(mod %s %d)", pair[0].S, c+1), SInt, rt)
					}
				}
			}
		}
		if bits != 0 && bits <= 16 && !signed {
			return bitwise(op, x, y, bits)
		}
		name := map[token.Token]string{token.AND: "bvand", token.OR: "bvor", token.XOR: "bvxor", token.AND_NOT: "bvandnot"}[op] + fmt.Sprint(bits)
		fc.declareOnce(name, fmt.Sprintf("(declare-fun %s (Int Int) Int)", name))
		fc.note(fmt.Sprintf("bitwise %s on %d-bit values is uninterpreted", op, bits))
		return mk(app(name, x.S, y.S), SInt, rt)
	}
	fc.unsupp(pos, "binary operator %s", op)
	return fc.fresh("binop", fc.sortOf(rt), rt)
}

const tdivDef = `(define-fun tdiv ((a Int) (b Int)) Int (ite (>= a 0) (ite (> b 0) (div a b) (- (div a (- b)))) (ite (> b 0) (- (div (- a) b)) (div (- a) (- b)))))
(define-fun tmod ((a Int) (b Int)) Int (- a (* b (tdiv a b))))`

func (fc *FnCtx) declareOnce(key, text string) {
	if fc.decl["once:"+key] {
		return
	}
	fc.decl["once:"+key] = true
	for _, l := range strings.Split(text, "\n") {
		fc.emit(l)
	}
}

// convert translates a Go conversion of v from type 'from' to type 'to'.
func (fc *FnCtx) convert(v Term, from, to types.Type, st *State) Term {
	fs, ts := fc.sortOf(from), fc.sortOf(to)
	switch {
	case fs == SInt && ts == SInt:
		fb, tb := basicOf(from), basicOf(to)
		if fb != nil && tb != nil {
			fbits, fsig := intBits(fb)
			tbits, tsig := intBits(tb)
			if fbits != 0 && tbits != 0 {
				// value-preserving conversions need no wrap
				if (fsig == tsig && tbits >= fbits) || (!fsig && tsig && tbits > fbits) {
					r := v
					r.T = to
					return r
				}
			}
		}
		r := wrapInt(v, to, true)
		r.T = to
		return r
	case fs == SInt && ts == SReal:
		return mk(app("to_real", v.S), SReal, to)
	case fs == SReal && ts == SInt:
		// truncation toward zero
		return mk(fmt.Sprintf("(ite (>= %s 0.0) (to_int %s) (- (to_int (- %s))))", v.S, v.S, v.S), SInt, to)
	case fs == ts:
		r := v
		r.T = to
		// []byte <-> string: Go copies; the copy has equal contents. We keep the same term
		// (content equality) but freshness of the copy is lost.
		if fs == SSlice && basicOf(from) != basicOf(to) {
			fc.note("string/[]byte conversion keeps the same backing term (copy semantics abstracted)")
		}
		return r
	}
	fc.unsupp(0, "conversion %s -> %s", shortTypeString(from), shortTypeString(to))
	return fc.fresh("conv", ts, to)
}

func widthMask(bits int) *big.Int {
	m := new(big.Int).Lsh(big.NewInt(1), uint(bits))
	return m.Sub(m, big.NewInt(1))
}

// maskOf returns an upper bound of the bits that may be set in an integer term.
func maskOf(t Term, ty types.Type) *big.Int {
	if t.Mask != nil {
		return t.Mask
	}
	if c, ok := bigConst(t); ok && c.Sign() >= 0 {
		return c
	}
	if b := basicOf(ty); b != nil {
		if n, signed := intBits(b); n > 0 && !signed {
			return widthMask(n)
		}
	}
	return widthMask(64)
}

func bigConst(t Term) (*big.Int, bool) {
	s := t.S
	if len(s) == 0 || len(s) > 24 {
		return nil, false
	}
	for _, c := range s {
		if c < '0' || c > '9' {
			return nil, false
		}
	}
	v, ok := new(big.Int).SetString(s, 10)
	return v, ok
}

// andConst encodes x & c for a non-negative constant c as a sum over the maximal runs of
// one-bits of c: for a run [lo,hi) the contribution is ((x div 2^lo) mod 2^(hi-lo)) * 2^lo.
func andConst(x Term, c *big.Int) Term {
	if c.Sign() == 0 {
		return mk("0", SInt, x.T)
	}
	var parts []string
	n := c.BitLen()
	i := 0
	for i < n {
		if c.Bit(i) == 0 {
			i++
			continue
		}
		lo := i
		for i < n && c.Bit(i) == 1 {
			i++
		}
		hi := i
		e := x.S
		if lo > 0 {
			e = fmt.Sprintf("(div %s %s)", e, pow2str(lo))
		}
		e = fmt.Sprintf("(mod %s %s)", e, pow2str(hi-lo))
		if lo > 0 {
			e = fmt.Sprintf("(* %s %s)", e, pow2str(lo))
		}
		parts = append(parts, e)
	}
	if len(parts) == 1 {
		return mk(parts[0], SInt, x.T)
	}
	return mk("(+ "+strings.Join(parts, " ")+")", SInt, x.T)
}
