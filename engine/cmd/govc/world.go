package main

import (
	"fmt"
	"go/token"
	"go/types"
	"math/big"
	"os"
	"path/filepath"
	"sort"
	"strings"

	"golang.org/x/tools/go/packages"
	"golang.org/x/tools/go/ssa"
	"golang.org/x/tools/go/ssa/ssautil"
)

// World holds everything loaded once per run.
type World struct {
	fset   *token.FileSet
	prog   *ssa.Program
	pkgs   map[string]*ssa.Package      // by package name
	tpkgs  map[string]*packages.Package // by package name
	specs  *SpecSet
	funcs  map[string]*ssa.Function // by qualified key "pkg.Name"
	fids   map[string]int           // field id registry "Struct.field"
	fidRev []fieldInfo
	// fieldsByType: canonical Go type string -> list of field ids of that type
	modsets map[*ssa.Function]map[string]bool
	repo    string
	assumed map[string]bool // notes about assumed/unknown callees (for evidence)
	finalFields map[string]bool
}

type fieldInfo struct {
	comp   string // heap component name
	owner  string // struct name
	field  string
	ftype  types.Type
	struc  *types.Struct
	idx    int
	ownerT types.Type
}

var repoPkgPatterns = []string{".", "./part", "./lpm", "./index", "./internal", "./reconciler"}

func loadWorld(repo string, specDirs []string) (*World, error) {
	cfg := &packages.Config{
		Mode:       packages.LoadSyntax,
		Dir:        repo,
		BuildFlags: []string{"-tags=verif"},
		Env:        append(os.Environ(), "GOFLAGS=-mod=mod", "GOPROXY=off"),
	}
	pkgs, err := packages.Load(cfg, repoPkgPatterns...)
	if err != nil {
		return nil, err
	}
	var errs []string
	packages.Visit(pkgs, nil, func(p *packages.Package) {
		for _, e := range p.Errors {
			errs = append(errs, e.Error())
		}
	})
	if len(errs) > 0 {
		return nil, fmt.Errorf("load errors:\n%s", strings.Join(errs, "\n"))
	}
	prog, spkgs := ssautil.Packages(pkgs, ssa.NaiveForm|ssa.GlobalDebug)
	prog.Build()
	w := &World{
		fset: pkgs[0].Fset, prog: prog,
		pkgs: map[string]*ssa.Package{}, tpkgs: map[string]*packages.Package{},
		specs: newSpecSet(), funcs: map[string]*ssa.Function{}, fids: map[string]int{},
		modsets: map[*ssa.Function]map[string]bool{}, repo: repo, assumed: map[string]bool{},
	}
	for i, p := range spkgs {
		if p == nil {
			continue
		}
		w.pkgs[p.Pkg.Name()] = p
		w.tpkgs[p.Pkg.Name()] = pkgs[i]
	}
	// index functions and methods (including anonymous ones via parents)
	for _, p := range w.pkgs {
		for _, m := range p.Members {
			switch m := m.(type) {
			case *ssa.Function:
				w.funcs[funcKey(m)] = m
			case *ssa.Type:
				for _, t := range []types.Type{m.Type(), types.NewPointer(m.Type())} {
					ms := prog.MethodSets.MethodSet(t)
					for i := 0; i < ms.Len(); i++ {
						fn := prog.MethodValue(ms.At(i))
						if fn == nil {
							continue
						}
						if fn.Synthetic != "" && fn.Origin() == nil {
							continue
						}
						if o := fn.Origin(); o != nil {
							fn = o
						}
						if fn.Pkg != p {
							continue
						}
						w.funcs[funcKey(fn)] = fn
					}
				}
			}
		}
	}
	// generic methods are not in method sets of uninstantiated types; find them through
	// the declared functions of the package syntax.
	for name, tp := range w.tpkgs {
		sp := w.pkgs[name]
		for _, obj := range tp.TypesInfo.Defs {
			if f, ok := obj.(*types.Func); ok {
				fn := prog.FuncValue(f)
				if fn != nil && fn.Pkg == sp {
					w.funcs[funcKey(fn)] = fn
				}
			}
		}
	}
	// anonymous functions
	var addAnon func(f *ssa.Function)
	addAnon = func(f *ssa.Function) {
		for _, a := range f.AnonFuncs {
			w.funcs[funcKey(a)] = a
			addAnon(a)
		}
	}
	for _, f := range w.funcs {
		addAnon(f)
	}
	// contract files: stdlib/trusted contracts shipped with the engine, then those in the repo.
	for _, d := range specDirs {
		files, _ := filepath.Glob(filepath.Join(d, "*.spec"))
		sort.Strings(files)
		for _, f := range files {
			if err := w.specs.loadSpecFile(f, "builtin"); err != nil {
				return nil, err
			}
		}
	}
	for name, tp := range w.tpkgs {
		dir := ""
		if len(tp.GoFiles) > 0 {
			dir = filepath.Dir(tp.GoFiles[0])
		}
		if dir == "" {
			continue
		}
		files, _ := filepath.Glob(filepath.Join(dir, "zz_verif_contracts*.go"))
		sort.Strings(files)
		for _, f := range files {
			if err := w.specs.loadSpecFile(f, name); err != nil {
				return nil, err
			}
		}
	}
	return w, nil
}

// funcKey gives the qualified name used in contract files:
// "pkg.Func", "pkg.(*T).M", "pkg.T.M"; anonymous functions "pkg.Outer$1".
func funcKey(fn *ssa.Function) string {
	if o := fn.Origin(); o != nil {
		fn = o
	}
	pkg := ""
	if fn.Pkg != nil {
		pkg = fn.Pkg.Pkg.Name()
	} else if fn.Object() != nil && fn.Object().Pkg() != nil {
		pkg = fn.Object().Pkg().Name()
	}
	if fn.Parent() != nil {
		// anonymous function: Outer$N
		pk := funcKey(fn.Parent())
		name := fn.Name()
		if i := strings.LastIndex(name, "$"); i >= 0 {
			return pk + name[i:]
		}
		return pk + "$" + name
	}
	if recv := fn.Signature.Recv(); recv != nil {
		return pkg + "." + recvString(recv.Type()) + "." + fn.Name()
	}
	return pkg + "." + fn.Name()
}

func recvString(t types.Type) string {
	ptr := false
	if p, ok := t.(*types.Pointer); ok {
		ptr = true
		t = p.Elem()
	}
	name := "?"
	switch n := t.(type) {
	case *types.Named:
		name = n.Obj().Name()
	case *types.Alias:
		name = n.Obj().Name()
	}
	if ptr {
		return "(*" + name + ")"
	}
	return name
}

// ---------------------------------------------------------------------------
// Go type -> SMT sort

type sortCtx struct {
	decls    *[]string
	declared map[string]bool
}

func identOf(s string) string {
	var b strings.Builder
	for _, r := range s {
		switch {
		case r >= 'a' && r <= 'z', r >= 'A' && r <= 'Z', r >= '0' && r <= '9', r == '_':
			b.WriteRune(r)
		case r == '*':
			b.WriteString("p_")
		case r == '[':
			b.WriteString("_L")
		case r == ']':
			b.WriteString("R_")
		case r == '.':
			b.WriteString("_")
		case r == '/':
			b.WriteString("_")
		default:
			b.WriteString("_")
		}
	}
	return b.String()
}

func shortTypeString(t types.Type) string {
	return types.TypeString(t, func(p *types.Package) string { return p.Name() })
}

func isStruct(t types.Type) (*types.Struct, bool) {
	s, ok := t.Underlying().(*types.Struct)
	return s, ok
}

func isArray(t types.Type) (*types.Array, bool) {
	a, ok := t.Underlying().(*types.Array)
	return a, ok
}

// structName gives a stable name for a struct type (named or anonymous).
func structName(t types.Type) string {
	t = types.Unalias(t)
	if n, ok := t.(*types.Named); ok {
		pkg := ""
		if p := n.Obj().Pkg(); p != nil {
			pkg = p.Name() + "_"
			if strings.Contains(p.Path(), "/") && !strings.HasPrefix(p.Path(), "github.com/cilium/statedb") && strings.HasPrefix(p.Path(), "internal/") {
				pkg = identOf(p.Path()) + "_"
			}
		}
		return pkg + n.Obj().Name()
	}
	return "anon_" + identOf(shortTypeString(t))
}

// intRange returns the value range of a basic integer type.
func intRange(b *types.Basic) (lo, hi string, ok bool) {
	switch b.Kind() {
	case types.Int8:
		return "(- 128)", "127", true
	case types.Int16:
		return "(- 32768)", "32767", true
	case types.Int32:
		return "(- 2147483648)", "2147483647", true
	case types.Int, types.Int64:
		return "(- 9223372036854775808)", "9223372036854775807", true
	case types.Uint8:
		return "0", "255", true
	case types.Uint16:
		return "0", "65535", true
	case types.Uint32:
		return "0", "4294967295", true
	case types.Uint, types.Uint64, types.Uintptr:
		return "0", "18446744073709551615", true
	}
	return "", "", false
}

func intBits(b *types.Basic) (bits int, signed bool) {
	switch b.Kind() {
	case types.Int8:
		return 8, true
	case types.Int16:
		return 16, true
	case types.Int32:
		return 32, true
	case types.Int, types.Int64:
		return 64, true
	case types.Uint8:
		return 8, false
	case types.Uint16:
		return 16, false
	case types.Uint32:
		return 32, false
	case types.Uint, types.Uint64, types.Uintptr:
		return 64, false
	case types.UntypedInt, types.UntypedRune:
		return 0, true
	}
	return 0, true
}

func pow2str(n int) string {
	// exact decimal of 2^n for n <= 64
	return new(big.Int).Lsh(big.NewInt(1), uint(n)).String()
}
