package main

import (
	"bufio"
	"regexp"
	"encoding/json"
	"fmt"
	"os"
	"os/exec"
	"path/filepath"
	"sort"
	"strconv"
	"strings"
	"time"
)

// ---------------------------------------------------------------------------
// known findings

type Finding struct {
	Property   string
	Obligation string
	Input      string
	Repro      string
	Text       string
}

func loadFindings() []Finding {
	var out []Finding
	f, err := os.Open(filepath.Join(verifRoot, "known_findings.txt"))
	if err != nil {
		return nil
	}
	defer f.Close()
	sc := bufio.NewScanner(f)
	sc.Buffer(make([]byte, 1<<20), 1<<20)
	for sc.Scan() {
		line := strings.TrimSpace(sc.Text())
		if !strings.HasPrefix(line, "finding:") {
			continue
		}
		fd := Finding{}
		var rest []string
		for _, tok := range strings.Fields(strings.TrimPrefix(line, "finding:")) {
			switch {
			case strings.HasPrefix(tok, "property=") && fd.Property == "":
				fd.Property = strings.TrimPrefix(tok, "property=")
			case strings.HasPrefix(tok, "obligation=") && fd.Obligation == "":
				fd.Obligation = strings.TrimPrefix(tok, "obligation=")
			case strings.HasPrefix(tok, "input=") && fd.Input == "":
				fd.Input = strings.TrimPrefix(tok, "input=")
			case strings.HasPrefix(tok, "repro=") && fd.Repro == "":
				fd.Repro = strings.TrimPrefix(tok, "repro=")
			default:
				rest = append(rest, tok)
			}
		}
		fd.Text = strings.Join(rest, " ")
		out = append(out, fd)
	}
	return out
}

// ---------------------------------------------------------------------------
// probes: concrete executions of the real code, used to look for a failing input when an
// obligation fails, and as the bounded stand-in tier for functions beyond the verifier's reach.

type Probe struct {
	Name       string   `json:"name"`
	Package    string   `json:"package"`  // directory relative to the repository root ("." for the root package)
	File       string   `json:"file"`     // test file under /verif/probes
	Run        string   `json:"run"`      // -run pattern
	Properties []string `json:"properties"`
	Functions  []string `json:"functions"` // function keys whose failed obligations trigger this probe
	Bounded    bool     `json:"bounded"`   // part of the bounded tier: always run for its properties
	Bound      string   `json:"bound"`     // stated bound (for evidence)
	Thorough   string   `json:"thorough_env,omitempty"`
}

func loadProbes() []Probe {
	var ps []Probe
	data, err := os.ReadFile(filepath.Join(verifRoot, "probes", "index.json"))
	if err != nil {
		return nil
	}
	if err := json.Unmarshal(data, &ps); err != nil {
		fmt.Fprintln(os.Stderr, "probes/index.json:", err)
	}
	return ps
}

type ProbeResult struct {
	Probe   Probe
	OK      bool
	Output  string
	Seconds float64
	Cases   int64
	Fail    string
}

// runProbe injects the probe test into the package with -overlay and runs it against the
// working tree of the repository.
func runProbe(repo string, p Probe, tier string, seed int64, tmp string) ProbeResult {
	res := ProbeResult{Probe: p}
	src := filepath.Join(verifRoot, "probes", p.File)
	pkgDir := filepath.Join(repo, p.Package)
	target := filepath.Join(pkgDir, "zz_verif_probe_"+filepath.Base(p.File))
	ov := map[string]map[string]string{"Replace": {target: src}}
	// shared helper files for the package
	helpers, _ := filepath.Glob(filepath.Join(verifRoot, "probes", filepath.Dir(p.File), "helper_*_test.go"))
	for _, h := range helpers {
		ov["Replace"][filepath.Join(pkgDir, "zz_verif_"+filepath.Base(h))] = h
	}
	data, _ := json.Marshal(ov)
	ovf := filepath.Join(tmp, "overlay_"+fileSafe(p.Name)+".json")
	os.WriteFile(ovf, data, 0o644)
	timeout := "300s"
	if tier == "thorough" {
		timeout = "3600s"
	}
	cmd := exec.Command("go", "test", "-tags", "verif", "-overlay", ovf, "-vet=off", "-count=1", "-timeout", timeout, "-run", p.Run, "./"+p.Package)
	cmd.Dir = repo
	cmd.Env = append(os.Environ(), "GOFLAGS=-mod=mod", "GOPROXY=off", "VERIF_TIER="+tier, fmt.Sprintf("VERIF_SEED=%d", seed))
	t0 := time.Now()
	out, err := cmd.CombinedOutput()
	res.Seconds = time.Since(t0).Seconds()
	res.Output = string(out)
	res.OK = err == nil
	for _, l := range strings.Split(res.Output, "\n") {
		if i := strings.Index(l, "VERIF-CASES="); i >= 0 {
			n, _ := strconv.ParseInt(strings.Fields(l[i+len("VERIF-CASES="):])[0], 10, 64)
			res.Cases += n
		}
		if i := strings.Index(l, "VERIF-FAIL:"); i >= 0 && res.Fail == "" {
			res.Fail = strings.TrimSpace(l[i+len("VERIF-FAIL:"):])
		}
	}
	if !res.OK && res.Fail == "" {
		// first failure line of go test
		for _, l := range strings.Split(res.Output, "\n") {
			if strings.Contains(l, "_test.go:") || strings.HasPrefix(strings.TrimSpace(l), "panic:") {
				res.Fail = strings.TrimSpace(l)
				break
			}
		}
	}
	return res
}

// ---------------------------------------------------------------------------
// check

type oblReport struct {
	Name    string  `json:"name"`
	Status  string  `json:"status"`
	Solver  string  `json:"solver,omitempty"`
	Seconds float64 `json:"seconds"`
	Descr   string  `json:"descr,omitempty"`
}

func runCheck(repo, prop, tier string, update bool) int {
	t0 := time.Now()
	seed := int64(1)
	if s := os.Getenv("VERIF_SEED"); s != "" {
		if v, err := strconv.ParseInt(s, 10, 64); err == nil {
			seed = v
		}
	}
	if prop == "" {
		fmt.Fprintln(os.Stderr, "check: --property required")
		return 2
	}
	w := mustLoad(repo)
	keys := propFuncs(w, prop)
	timeout := 10
	if tier == "thorough" {
		timeout = 60
	}
	tmp, _ := os.MkdirTemp("", "govc-check")
	defer os.RemoveAll(tmp)
	results, sr := verifyFuncs(w, keys, timeout, tmp, true, false)

	base := loadBaseline()
	findings := loadFindings()
	isFinding := func(name string) *Finding {
		for i := range findings {
			if findings[i].Property == prop && findings[i].Obligation == name {
				return &findings[i]
			}
		}
		return nil
	}
	replayDir := filepath.Join(verifRoot, "replay", prop)
	if noEvidence {
		replayDir = filepath.Join(os.TempDir(), "govc-selftest-replay", prop)
	}
	os.MkdirAll(replayDir, 0o755)

	var (
		nObl, nDis      int
		perBackend      = map[string]int{}
		solverSecs      float64
		undecided       []string
		violations      []string
		failedFuncs     = map[string]bool{}
		samples         []oblReport
		vacuity         []string
		knownPrinted    = map[string]bool{}
		newBaseline     = map[string][]string{}
		newCanaries     = map[string][]string{}
		functionsUnder  []string
		notes           = map[string]bool{}
		violationDetail = map[string]string{}
	)
	for _, r := range results {
		functionsUnder = append(functionsUnder, r.Key)
		for _, n := range r.Notes {
			notes[n] = true
		}
		baseSet := map[string]bool{}
		for _, n := range base.Obligations[r.Key] {
			baseSet[n] = true
			baseSet[oblStem(n)] = true
		}
		for _, n := range base.Universal[r.Key] {
			baseSet[n] = true
		}
		for _, m := range r.Mismatch {
			undecided = append(undecided, fmt.Sprintf("%s: contract-mismatch: %s", r.Key, m))
		}
		for _, u := range r.Unsupported {
			undecided = append(undecided, fmt.Sprintf("%s: unsupported: %s", r.Key, u))
		}
		seen := map[string]bool{}
		seenStem := map[string]bool{}
		for _, o := range r.Obls {
			seenStem[oblStem(o.Name)] = true
			s := sr[o.Name]
			solverSecs += s.Seconds
			if o.Canary {
				if s.Status == "unsat" {
					vacuity = append(vacuity, o.Name+": assumptions are contradictory (canary proved)")
					undecided = append(undecided, o.Name+": vacuous")
				} else {
					newCanaries[r.Key] = append(newCanaries[r.Key], o.Name)
				}
				continue
			}
			seen[o.Name] = true
			nObl++
			if len(samples) < 12 || s.Status != "unsat" {
				if len(samples) < 40 {
					samples = append(samples, oblReport{Name: o.Name, Status: s.Status, Solver: s.Solver, Seconds: s.Seconds, Descr: o.Descr})
				}
			}
			if s.Status == "unsat" {
				nDis++
				perBackend[s.Solver]++
				newBaseline[r.Key] = append(newBaseline[r.Key], o.Name)
				if fd := isFinding(o.Name); fd != nil {
					fmt.Printf("NOTE: obligation %s is listed as a known finding but discharges now\n", o.Name)
				}
				continue
			}
			if fd := isFinding(o.Name); fd != nil {
				if !knownPrinted[o.Name] {
					knownPrinted[o.Name] = true
					fmt.Printf("KNOWN-FINDING: property=%s %s [obligation %s, inputs: %s]\n", prop, fd.Text, o.Name, fd.Input)
				}
				nObl-- // known findings are kept out of the proved/obligation count
				continue
			}
			if baseSet[o.Name] || baseSet[oblStem(o.Name)] {
				// an obligation that discharges on the pinned tree fails now
				failedFuncs[r.Key] = true
				file := filepath.Join(replayDir, fileSafe(o.Name)+".txt")
				detail := fmt.Sprintf("property: %s\nfailed obligation: %s\nfunction: %s\nposition: %s\nclause: %s\nsolver status: %s (%s)\n\nsolver output / counter-model:\n%s\n", prop, o.Name, o.Func, o.Pos, o.Descr, s.Status, s.Solver, s.Output)
				os.WriteFile(file, []byte(detail), 0o644)
				violations = append(violations, o.Name)
				violationDetail[o.Name] = file
			} else {
				undecided = append(undecided, fmt.Sprintf("%s: not in baseline and not discharged (%s)", o.Name, s.Status))
			}
		}
		for _, n := range base.Obligations[r.Key] {
			if !seen[n] && !seenStem[oblStem(n)] {
				undecided = append(undecided, fmt.Sprintf("%s: baseline obligation no longer generated (code shape changed)", n))
			}
		}
	}

	// probes: bounded tier for this property, plus probes triggered by failed functions
	probes := loadProbes()
	var boundedReports []map[string]any
	probeFailFor := map[string]*ProbeResult{}
	var probeViolations []string
	for _, p := range probes {
		runIt := false
		if p.Bounded {
			for _, pp := range p.Properties {
				if pp == prop {
					runIt = true
				}
			}
		}
		if !runIt {
			for _, f := range p.Functions {
				if failedFuncs[f] {
					for _, pp := range p.Properties {
						if pp == prop {
							runIt = true
						}
					}
				}
			}
		}
		if !runIt {
			continue
		}
		pr := runProbe(repo, p, tier, seed, tmp)
		rep := map[string]any{"probe": p.Name, "bound": p.Bound, "cases": pr.Cases, "seconds": pr.Seconds, "ok": pr.OK, "bounded_tier": p.Bounded}
		boundedReports = append(boundedReports, rep)
		if !pr.OK {
			prc := pr
			for _, f := range p.Functions {
				probeFailFor[f] = &prc
			}
			file := filepath.Join(replayDir, "probe_"+fileSafe(p.Name)+".txt")
			os.WriteFile(file, []byte(fmt.Sprintf("property: %s\nprobe: %s (%s)\nrun against the real code: cd %s && go test -tags verif -overlay <overlay mapping probes/%s into ./%s> -run '%s' ./%s\nfailing input: %s\n\noutput:\n%s\n", prop, p.Name, p.Bound, repo, p.File, p.Package, p.Run, p.Package, pr.Fail, tail(pr.Output, 6000))), 0o644)
			// is this a known finding (matched by the probe's reported input class)?
			known := false
			for _, fd := range findings {
				if fd.Property == prop && fd.Obligation == "probe:"+p.Name && (fd.Input == "" || strings.Contains(pr.Fail, fd.Input)) {
					known = true
					if !knownPrinted["probe:"+p.Name] {
						knownPrinted["probe:"+p.Name] = true
						fmt.Printf("KNOWN-FINDING: property=%s %s\n", prop, fd.Text)
					}
				}
			}
			if !known {
				probeViolations = append(probeViolations, file)
			}
		}
	}

	// print violations
	sort.Strings(violations)
	exit := 0
	for _, v := range violations {
		file := violationDetail[v]
		fn := v[:strings.Index(v, "#")]
		if pr := probeFailFor[fn]; pr != nil {
			f, _ := os.OpenFile(file, os.O_APPEND|os.O_WRONLY, 0o644)
			fmt.Fprintf(f, "\nreplayed on the real code by probe %s: failing input: %s\n%s\n", pr.Probe.Name, pr.Fail, tail(pr.Output, 4000))
			f.Close()
			fmt.Printf("VIOLATION property=%s replay=%s obligation=%s failing-input=%q\n", prop, file, v, pr.Fail)
		} else {
			fmt.Printf("VIOLATION property=%s replay=%s obligation=%s no-failing-input-found\n", prop, file, v)
		}
		exit = 1
	}
	for _, f := range probeViolations {
		fmt.Printf("VIOLATION property=%s replay=%s (bounded check of the real code)\n", prop, f)
		exit = 1
	}
	for _, u := range undecided {
		fmt.Printf("UNDECIDED %s\n", u)
	}

	if update {
		for _, r := range results {
			delete(base.Universal, r.Key)
			if spec := w.specs.Funcs[r.Key]; spec != nil {
				for tname, cls := range spec.AtStores {
					for k, cl := range cls {
						lbl := fmt.Sprint(k + 1)
						if cl.Label != "" {
							lbl = cl.Label
						}
						base.Universal[r.Key] = append(base.Universal[r.Key], fmt.Sprintf("%s#atstore.%s@all.%s", r.Key, tname, lbl))
					}
				}
				for site, cls := range spec.AtCalls {
					if !strings.HasSuffix(site, "@*") {
						continue
					}
					for k, cl := range cls {
						lbl := fmt.Sprint(k + 1)
						if cl.Label != "" {
							lbl = cl.Label
						}
						base.Universal[r.Key] = append(base.Universal[r.Key], fmt.Sprintf("%s#atcall.%s.%s", r.Key, strings.Replace(site, "@*", "@all", 1), lbl))
					}
				}
				sort.Strings(base.Universal[r.Key])
			}
		}
		for k, v := range newBaseline {
			sort.Strings(v)
			base.Obligations[k] = v
		}
		for _, r := range results {
			if _, ok := newBaseline[r.Key]; !ok {
				delete(base.Obligations, r.Key)
			}
		}
		for k, v := range newCanaries {
			base.Canaries[k] = v
		}
		os.MkdirAll(filepath.Join(verifRoot, "baseline"), 0o755)
		data, _ := json.MarshalIndent(base, "", " ")
		os.WriteFile(filepath.Join(verifRoot, "baseline", "obligations.json"), data, 0o644)
	}

	// evidence
	level := "proof"
	hasBounded := false
	for _, r := range boundedReports {
		if b, _ := r["bounded_tier"].(bool); b {
			hasBounded = true
		}
	}
	if hasBounded || nObl == 0 {
		level = "other"
	}
	// the level recorded in the evidence is the one claimed in MANIFEST.json for this property
	if data, err := os.ReadFile(filepath.Join(verifRoot, "MANIFEST.json")); err == nil {
		var mf struct {
			Checks []struct {
				PropertyID   string `json:"property_id"`
				LevelClaimed struct {
					Category string `json:"category"`
				} `json:"level_claimed"`
			} `json:"checks"`
		}
		if json.Unmarshal(data, &mf) == nil {
			for _, c := range mf.Checks {
				if c.PropertyID == prop && c.LevelClaimed.Category != "" {
					level = c.LevelClaimed.Category
				}
			}
		}
	}
	if level == "proof" && (nObl == 0 || nDis != nObl) {
		level = "other"
	}
	var assumed []string
	for a := range w.assumed {
		assumed = append(assumed, a)
	}
	for n := range notes {
		assumed = append(assumed, "abstraction: "+n)
	}
	sort.Strings(assumed)
	assumptions := append([]string{
		"the verification-condition generator (govc), go/ssa's translation of the source and the SMT solvers are trusted; an 'unsat' from any of z3 5.1.0, cvc5 1.0, z3 4.8.12 is believed",
		"partial correctness only: termination is not proved",
		"64-bit integer arithmetic (+,-,*) is treated as mathematical (no wrap-around); narrower integer types wrap exactly; conversions are exact",
		"pointers stored in the heap refer to allocated objects; slice lengths/capacities are below 2^56",
		"no interleaving is modelled: obligations are per function; the step to 'every schedule' is the meta-argument of DESIGN.md Appendix B",
	}, assumed...)
	sort.Strings(functionsUnder)
	cov := map[string]any{
		"obligations":              nObl,
		"discharged":               nDis,
		"checker_cmd":              fmt.Sprintf("/verif/bin/govc check --property %s --tier %s", prop, tier),
		"trusted_base":             []string{"govc VC generator (this repository, /verif/engine)", "golang.org/x/tools/go/ssa v0.29.0", "z3 5.1.0 (z3-new)", "cvc5 1.0", "z3 4.8.12", "Go memory model facts listed in DESIGN.md section 5"},
		"functions_under_contract": functionsUnder,
		"per_backend":              perBackend,
		"solver_s":                 solverSecs,
		"undecided":                undecided,
		"vacuity_canaries_ok":      len(vacuity) == 0,
		"vacuity":                  vacuity,
		"samples":                  sampleList(samples, boundedReports),
		"bounded":                  boundedReports,
		"explanation":              fmt.Sprintf("%d proof obligations generated from /repo's current source for %d functions under contract, %d discharged by SMT solvers; bounded stand-in checks (labelled bounded, not counted as proved): %d", nObl, len(functionsUnder), nDis, len(boundedReports)),
		"known_findings":           len(knownPrinted),
	}
	ev := map[string]any{
		"property_id": prop,
		"tier":        tier,
		"seed":        seed,
		"level":       level,
		"coverage":    cov,
		"assumptions": assumptions,
		"wall_s":      time.Since(t0).Seconds(),
		"violations":  len(violations) + len(probeViolations),
	}
	data, _ := json.MarshalIndent(ev, "", " ")
	if !noEvidence {
		os.MkdirAll(filepath.Join(verifRoot, "evidence"), 0o755)
		os.WriteFile(filepath.Join(verifRoot, "evidence", prop+".json"), data, 0o644)
	}
	fmt.Printf("property %s: %d/%d obligations discharged, %d undecided, %d violations, %d bounded checks, %.1fs\n", prop, nDis, nObl, len(undecided), len(violations)+len(probeViolations), len(boundedReports), time.Since(t0).Seconds())
	return exit
}

func tail(s string, n int) string {
	if len(s) <= n {
		return s
	}
	return "...\n" + s[len(s)-n:]
}

var reOblSuffix = regexp.MustCompile(`(\.e\d+|~\d+)$`)
var reSite = regexp.MustCompile(`@all\.site\d+\.`)

// oblStem strips the per-edge / duplicate suffixes, so that a change in the number of back
// edges or call sites does not turn a known obligation into an unknown one.
func oblStem(n string) string {
	n = reSite.ReplaceAllString(n, "@all.")
	for {
		m := reOblSuffix.FindString(n)
		if m == "" {
			return n
		}
		n = strings.TrimSuffix(n, m)
	}
}

func sampleList(obls []oblReport, bounded []map[string]any) []any {
	out := []any{}
	for _, o := range obls {
		out = append(out, o)
	}
	for _, b := range bounded {
		out = append(out, b)
	}
	return out
}
