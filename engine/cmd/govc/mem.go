package main

import (
	"fmt"
	"go/types"
	"strings"
)

// ---------------------------------------------------------------------------
// scalar leaves

func isAggregate(t types.Type) bool {
	t = types.Unalias(t)
	if _, ok := t.(*types.TypeParam); ok {
		return false
	}
	switch t.Underlying().(type) {
	case *types.Struct, *types.Array:
		return true
	}
	return false
}

// candidateFields lists registered struct fields whose type prints like t.
func (fc *FnCtx) candidateFields(t types.Type) []int {
	want := shortTypeString(t)
	var out []int
	for id, fi := range fc.w.fidRev {
		if isAggregate(fi.ftype) {
			continue
		}
		if shortTypeString(fi.ftype) == want {
			out = append(out, id)
		}
	}
	return out
}

func (fc *FnCtx) fieldComp(fid int) (string, string) {
	fi := fc.w.fidRev[fid]
	return fc.compField(fi.ownerT, fi.idx)
}

func (fc *FnCtx) loadScalar(st *State, p Term, t types.Type) Term {
	es := fc.sortOf(t)
	if p.Sh != nil {
		switch p.Sh.Kind {
		case 'f':
			name, _ := fc.fieldComp(p.Sh.Fid)
			return tSel(fc.comp(st, name), p.Sh.Base, es, t)
		case 'e':
			name, _ := fc.compElem(t)
			inner := mk(app("select", fc.comp(st, name).S, p.Sh.Base.S), arraySort(SInt, es), nil)
			return tSel(inner, p.Sh.Idx, es, t)
		case 'o':
			name, _ := fc.compBox(t)
			return tSel(fc.comp(st, name), p, es, t)
		}
	}
	// unknown shape: dispatch on the constructor
	bname, _ := fc.compBox(t)
	res := tSel(fc.comp(st, bname), p, es, t)
	for _, fid := range fc.candidateFields(t) {
		name, _ := fc.fieldComp(fid)
		c := mk(fmt.Sprintf("(and (is_PField %s) (= (pf_fid %s) %d))", p.S, p.S, fid), SBool, nil)
		v := mk(fmt.Sprintf("(select %s (pf_base %s))", fc.comp(st, name).S, p.S), es, t)
		res = tIte(c, v, res)
	}
	ename, _ := fc.compElem(t)
	ce := mk(fmt.Sprintf("(is_PElem %s)", p.S), SBool, nil)
	ve := mk(fmt.Sprintf("(select (select %s (pe_arr %s)) (pe_idx %s))", fc.comp(st, ename).S, p.S, p.S), es, t)
	res = tIte(ce, ve, res)
	res.T = t
	return fc.define("ld", res)
}

func (fc *FnCtx) setComp(st *State, name string, v Term) {
	v.Sort = fc.comps[name]
	st.heap[name] = fc.define(name, v)
}

func (fc *FnCtx) storeScalar(st *State, p Term, t types.Type, v Term) {
	if p.Sh != nil {
		switch p.Sh.Kind {
		case 'f':
			name, _ := fc.fieldComp(p.Sh.Fid)
			fc.setComp(st, name, tStore(fc.comp(st, name), p.Sh.Base, v))
			return
		case 'e':
			name, es := fc.compElem(t)
			c := fc.comp(st, name)
			inner := mk(app("select", c.S, p.Sh.Base.S), arraySort(SInt, es), nil)
			fc.setComp(st, name, tStore(c, p.Sh.Base, tStore(inner, p.Sh.Idx, v)))
			return
		case 'o':
			name, _ := fc.compBox(t)
			fc.setComp(st, name, tStore(fc.comp(st, name), p, v))
			return
		}
	}
	isF := mk(fmt.Sprintf("(is_PField %s)", p.S), SBool, nil)
	isE := mk(fmt.Sprintf("(is_PElem %s)", p.S), SBool, nil)
	for _, fid := range fc.candidateFields(t) {
		name, _ := fc.fieldComp(fid)
		c := fc.comp(st, name)
		cond := mk(fmt.Sprintf("(and %s (= (pf_fid %s) %d))", isF.S, p.S, fid), SBool, nil)
		upd := mk(fmt.Sprintf("(store %s (pf_base %s) %s)", c.S, p.S, v.S), c.Sort, nil)
		fc.setComp(st, name, tIte(cond, upd, c))
	}
	ename, _ := fc.compElem(t)
	ec := fc.comp(st, ename)
	upd := mk(fmt.Sprintf("(store %s (pe_arr %s) (store (select %s (pe_arr %s)) (pe_idx %s) %s))", ec.S, p.S, ec.S, p.S, p.S, v.S), ec.Sort, nil)
	fc.setComp(st, ename, tIte(isE, upd, ec))
	bname, _ := fc.compBox(t)
	bc := fc.comp(st, bname)
	updb := mk(fmt.Sprintf("(store %s %s %s)", bc.S, p.S, v.S), bc.Sort, nil)
	fc.setComp(st, bname, tIte(tOr(isF, isE), bc, updb))
}

// ---------------------------------------------------------------------------
// aggregates

func (fc *FnCtx) fieldAddr(p Term, st types.Type, i int) Term {
	fid := fc.w.fieldIDT(st, i)
	a := pField(p, fid)
	s, _ := isStruct(st)
	a.T = types.NewPointer(s.Field(i).Type())
	return a
}

func (fc *FnCtx) loadVal(st *State, p Term, t types.Type) Term {
	t = types.Unalias(t)
	if _, ok := t.(*types.TypeParam); ok {
		return fc.loadScalar(st, p, t)
	}
	switch u := t.Underlying().(type) {
	case *types.Struct:
		sn := fc.sortOf(t)
		if u.NumFields() == 0 {
			return mk("mk_"+sn, sn, t)
		}
		var fs []string
		for i := 0; i < u.NumFields(); i++ {
			fs = append(fs, fc.loadVal(st, fc.fieldAddr(p, t, i), u.Field(i).Type()).S)
		}
		return fc.define("sv", mk(app("mk_"+sn, fs...), sn, t))
	case *types.Array:
		if isAggregate(u.Elem()) {
			fc.unsupp(0, "load of array of aggregates %s", shortTypeString(t))
			return fc.fresh("arrv", fc.sortOf(t), t)
		}
		name, es := fc.compElem(u.Elem())
		return mk(app("select", fc.comp(st, name).S, p.S), arraySort(SInt, es), t)
	}
	return fc.loadScalar(st, p, t)
}

func (fc *FnCtx) structField(v Term, t types.Type, i int) Term {
	s, _ := isStruct(t)
	sn := fc.sortOf(t)
	ft := s.Field(i).Type()
	return mk(fmt.Sprintf("(%s_f%d %s)", sn, i, v.S), fc.sortOf(ft), ft)
}

func (fc *FnCtx) storeVal(st *State, p Term, t types.Type, v Term) {
	t = types.Unalias(t)
	if _, ok := t.(*types.TypeParam); ok {
		fc.storeScalar(st, p, t, v)
		return
	}
	switch u := t.Underlying().(type) {
	case *types.Struct:
		for i := 0; i < u.NumFields(); i++ {
			fc.storeVal(st, fc.fieldAddr(p, t, i), u.Field(i).Type(), fc.structField(v, t, i))
		}
		return
	case *types.Array:
		if isAggregate(u.Elem()) {
			fc.unsupp(0, "store of array of aggregates %s", shortTypeString(t))
			return
		}
		name, _ := fc.compElem(u.Elem())
		fc.setComp(st, name, tStore(fc.comp(st, name), p, v))
		return
	}
	fc.storeScalar(st, p, t, v)
}

// allocObj allocates a fresh object and returns its address.
func (fc *FnCtx) allocObj(st *State) Term {
	id := st.nextID
	st.nextID = fc.define("nid", mk(fmt.Sprintf("(+ %s 1)", id.S), SInt, nil))
	return pObj(id)
}

// leaf describes one scalar leaf of an element type: the component holding it and the
// chain of field ids from the element's address to the struct that owns the leaf.
type leaf struct {
	comp   string
	sort   string
	path   []int // field ids from element address to owning struct (may be empty)
	isElem bool  // leaf is the element itself (scalar element type): component E
	arrFid int   // for array-typed fields: not supported in bulk ops
	t      types.Type
}

func (fc *FnCtx) leavesOf(t types.Type, path []int, out *[]leaf) {
	t = types.Unalias(t)
	if s, ok := isStruct(t); ok {
		if _, isTP := t.(*types.TypeParam); !isTP {
			for i := 0; i < s.NumFields(); i++ {
				ft := s.Field(i).Type()
				if _, ok := isStruct(ft); ok {
					if _, isTP := types.Unalias(ft).(*types.TypeParam); !isTP {
						fid := fc.w.fieldIDT(t, i)
						fc.leavesOf(ft, append(append([]int(nil), path...), fid), out)
						continue
					}
				}
				if _, ok := isArray(ft); ok {
					fc.unsupp(0, "bulk operation on element type with array field %s", shortTypeString(t))
					continue
				}
				name, es := fc.compField(t, i)
				*out = append(*out, leaf{comp: name, sort: es, path: append([]int(nil), path...), t: ft})
			}
			return
		}
	}
}

// elemBase builds the address of the struct owning a leaf, for element idx of arr.
func elemBase(arr, idx Term, path []int) Term {
	b := pElem(arr, idx)
	for _, f := range path {
		b = pField(b, f)
	}
	return b
}

// matchBase returns (cond, arrOf(q), idxOf(q)) describing when q is the owning-struct address of
// some element of an array, following path.
func matchBase(q string, path []int) (cond []string, inner string) {
	cur := q
	for i := len(path) - 1; i >= 0; i-- {
		cond = append(cond, fmt.Sprintf("(is_PField %s)", cur), fmt.Sprintf("(= (pf_fid %s) %d)", cur, path[i]))
		cur = fmt.Sprintf("(pf_base %s)", cur)
	}
	cond = append(cond, fmt.Sprintf("(is_PElem %s)", cur))
	return cond, cur
}

// bulkCopy models copy(dst[dstOff:dstOff+n], src[srcOff:srcOff+n]) on element type et, reading
// the source from the heap 'pre'.
func (fc *FnCtx) bulkCopy(st *State, pre *State, et types.Type, dstArr, dstOff, srcArr, srcOff, n Term) {
	if c, ok := isConstInt(n); ok && c >= 0 && c <= 4 {
		// small constant count: explicit element copies
		var vals []Term
		for j := int64(0); j < c; j++ {
			sp := pElem(srcArr, mk(fmt.Sprintf("(+ %s %d)", srcOff.S, j), SInt, nil))
			vals = append(vals, fc.loadVal(pre, sp, et))
		}
		for j := int64(0); j < c; j++ {
			dp := pElem(dstArr, mk(fmt.Sprintf("(+ %s %d)", dstOff.S, j), SInt, nil))
			fc.storeVal(st, dp, et, vals[j])
		}
		return
	}
	if !isAggregate(et) {
		name, es := fc.compElem(et)
		cur := fc.comp(st, name)
		prec := fc.comp(pre, name)
		a := fc.fresh("cpy", arraySort(SInt, es), nil)
		fc.emit(fmt.Sprintf("(assert (forall ((i Int)) (! (= (select %s i) (ite (and (<= %s i) (< i (+ %s %s))) (select (select %s %s) (+ (- i %s) %s)) (select (select %s %s) i))) :pattern ((select %s i)))))",
			a.S, dstOff.S, dstOff.S, n.S, prec.S, srcArr.S, dstOff.S, srcOff.S, cur.S, dstArr.S, a.S))
		fc.setComp(st, name, tStore(cur, dstArr, a))
		return
	}
	var ls []leaf
	fc.leavesOf(et, nil, &ls)
	for _, l := range ls {
		cur := fc.comp(st, l.comp)
		prec := fc.comp(pre, l.comp)
		h := fc.fresh("cpy", cur.Sort, nil)
		cond, inner := matchBase("q", l.path)
		cond = append(cond, fmt.Sprintf("(= (pe_arr %s) %s)", inner, dstArr.S),
			fmt.Sprintf("(<= %s (pe_idx %s))", dstOff.S, inner), fmt.Sprintf("(< (pe_idx %s) (+ %s %s))", inner, dstOff.S, n.S))
		srcIdx := mk(fmt.Sprintf("(+ (- (pe_idx %s) %s) %s)", inner, dstOff.S, srcOff.S), SInt, nil)
		srcBase := elemBase(srcArr, srcIdx, l.path)
		fc.emit(fmt.Sprintf("(assert (forall ((q Ptr)) (! (= (select %s q) (ite (and %s) (select %s %s) (select %s q))) :pattern ((select %s q)))))",
			h.S, strings.Join(cond, " "), prec.S, srcBase.S, cur.S, h.S))
		fc.setComp(st, l.comp, h)
	}
}

// bulkZero zero-initialises all elements of a fresh array arr of element type et.
func (fc *FnCtx) bulkZero(st *State, et types.Type, arr Term) {
	if !isAggregate(et) {
		name, es := fc.compElem(et)
		z := fc.zero(et)
		ca := mk(fmt.Sprintf("((as const %s) %s)", arraySort(SInt, es), z.S), arraySort(SInt, es), nil)
		fc.setComp(st, name, tStore(fc.comp(st, name), arr, ca))
		return
	}
	var ls []leaf
	fc.leavesOf(et, nil, &ls)
	for _, l := range ls {
		cur := fc.comp(st, l.comp)
		h := fc.fresh("zin", cur.Sort, nil)
		cond, inner := matchBase("q", l.path)
		cond = append(cond, fmt.Sprintf("(= (pe_arr %s) %s)", inner, arr.S))
		z := fc.zero(l.t)
		fc.emit(fmt.Sprintf("(assert (forall ((q Ptr)) (! (= (select %s q) (ite (and %s) %s (select %s q))) :pattern ((select %s q)))))",
			h.S, strings.Join(cond, " "), z.S, cur.S, h.S))
		fc.setComp(st, l.comp, h)
	}
}
