package main

import (
	"fmt"
	"sort"
	"strings"

	"golang.org/x/tools/go/ssa"
)

// closeSites returns the source positions of every close(ch) reachable from fn through the
// static call graph of the module: static calls, anonymous functions of reachable functions
// and, for interface method calls, every method of the module with that name (a sound
// over-approximation of dynamic dispatch). Calls of function-typed VALUES that are not
// closures of the module (user callbacks) and calls into other modules are assumed not to
// close channels created by this module; that assumption is reported in the evidence.
func (w *World) closeSites(fn *ssa.Function) []string {
	seen := map[*ssa.Function]bool{}
	sites := map[string]bool{}
	var visit func(f *ssa.Function)
	visit = func(f *ssa.Function) {
		if f == nil || seen[f] {
			return
		}
		if o := f.Origin(); o != nil {
			f = o
			if seen[f] {
				return
			}
		}
		seen[f] = true
		for _, a := range f.AnonFuncs {
			visit(a)
		}
		for _, b := range f.Blocks {
			for _, in := range b.Instrs {
				ci, ok := in.(ssa.CallInstruction)
				if !ok {
					continue
				}
				c := ci.Common()
				if bi, isB := c.Value.(*ssa.Builtin); isB {
					if bi.Name() == "close" {
						p := w.fset.Position(in.Pos())
						sites[fmt.Sprintf("%s:%d (%s)", strings.TrimPrefix(p.Filename, w.repo+"/"), p.Line, funcKey(f))] = true
					}
					continue
				}
				if c.IsInvoke() {
					name := c.Method.Name()
					for _, cand := range w.funcs {
						if cand.Signature.Recv() != nil && cand.Name() == name && cand.Signature.Params().Len() == c.Signature().Params().Len() {
							visit(cand)
						}
					}
					continue
				}
				if sf := c.StaticCallee(); sf != nil {
					if len(sf.Blocks) > 0 || sf.Origin() != nil {
						visit(sf)
					}
					continue
				}
				if mc, ok := c.Value.(*ssa.MakeClosure); ok {
					visit(mc.Fn.(*ssa.Function))
				}
			}
		}
	}
	visit(fn)
	var out []string
	for s := range sites {
		out = append(out, s)
	}
	sort.Strings(out)
	return out
}
