package main

import (
	"fmt"
	"go/token"
	"go/types"
	"sort"
	"strings"

	"golang.org/x/tools/go/ssa"
)

// closeSites returns the source positions of every close(ch) reachable from fn through the
// static call graph of the module: static calls, anonymous functions of reachable functions
// and, for interface method calls, every method of the module with that name (a sound
// over-approximation of dynamic dispatch). Calls of function-typed VALUES that are not
// closures of the module (user callbacks) and calls into other modules are assumed not to
// close channels created by this module; that assumption is reported in the evidence.
func (w *World) closeSites(fn *ssa.Function) []string {
	seen := map[*ssa.Function]bool{}
	sites := map[string]bool{}
	var visit func(f *ssa.Function)
	visit = func(f *ssa.Function) {
		if f == nil || seen[f] {
			return
		}
		if o := f.Origin(); o != nil {
			f = o
			if seen[f] {
				return
			}
		}
		seen[f] = true
		for _, a := range f.AnonFuncs {
			visit(a)
		}
		for _, b := range f.Blocks {
			for _, in := range b.Instrs {
				ci, ok := in.(ssa.CallInstruction)
				if !ok {
					continue
				}
				c := ci.Common()
				if bi, isB := c.Value.(*ssa.Builtin); isB {
					if bi.Name() == "close" {
						p := w.fset.Position(in.Pos())
						sites[fmt.Sprintf("%s:%d (%s)", strings.TrimPrefix(p.Filename, w.repo+"/"), p.Line, funcKey(f))] = true
					}
					continue
				}
				if c.IsInvoke() {
					name := c.Method.Name()
					for _, cand := range w.funcs {
						if cand.Signature.Recv() != nil && cand.Name() == name && cand.Signature.Params().Len() == c.Signature().Params().Len() {
							visit(cand)
						}
					}
					continue
				}
				if sf := c.StaticCallee(); sf != nil {
					if len(sf.Blocks) > 0 || sf.Origin() != nil {
						visit(sf)
					}
					continue
				}
				if mc, ok := c.Value.(*ssa.MakeClosure); ok {
					visit(mc.Fn.(*ssa.Function))
				}
			}
		}
	}
	visit(fn)
	var out []string
	for s := range sites {
		out = append(out, s)
	}
	sort.Strings(out)
	return out
}

// finalFields computes the struct fields of the module that are only ever written while
// their object is being constructed (every store in the module targets an object allocated
// by the storing function itself) and that code outside the module cannot name (unexported
// field or unexported struct type). Such fields keep their value across calls with unknown
// effects; the set is recomputed from the source on every run.
func (w *World) computeFinalFields() {
	mutable := map[string]bool{}
	var markType func(t types.Type, depth int)
	markType = func(t types.Type, depth int) {
		s, ok := isStruct(t)
		if !ok || depth > 4 {
			return
		}
		if _, isTP := types.Unalias(t).(*types.TypeParam); isTP {
			return
		}
		for i := 0; i < s.NumFields(); i++ {
			mutable[structName(t)+"."+s.Field(i).Name()] = true
			markType(s.Field(i).Type(), depth+1)
		}
	}
	seen := map[*ssa.Function]bool{}
	var visit func(f *ssa.Function)
	visit = func(f *ssa.Function) {
		if f == nil || seen[f] {
			return
		}
		seen[f] = true
		promoted := computePromoted(f)
		for _, b := range f.Blocks {
			for _, in := range b.Instrs {
				st, ok := in.(*ssa.Store)
				if !ok {
					continue
				}
				if freshRooted(st.Addr, promoted, 0) || stackRooted(st.Addr) {
					continue
				}
				et := elemTypeOfPtr(st.Addr.Type())
				if et != nil && isAggregate(et) {
					markType(et, 0)
				}
				if fa, ok := st.Addr.(*ssa.FieldAddr); ok {
					if s, ok := isStruct(elemTypeOfPtr(fa.X.Type())); ok {
						mutable[structName(elemTypeOfPtr(fa.X.Type()))+"."+s.Field(fa.Field).Name()] = true
					}
				} else if et != nil && !isAggregate(et) {
					// store through a pointer of unknown origin: any field of that type may be the target
					want := shortTypeString(et)
					for _, fi := range w.fidRev {
						if shortTypeString(fi.ftype) == want {
							mutable[fi.owner+"."+fi.field] = true
						}
					}
				}
			}
		}
		for _, a := range f.AnonFuncs {
			visit(a)
		}
	}
	for _, f := range w.funcs {
		visit(f)
	}
	w.finalFields = map[string]bool{}
	for _, fi := range w.fidRev {
		key := fi.owner + "." + fi.field
		if mutable[key] {
			continue
		}
		unexportedField := !token.IsExported(fi.field)
		if !unexportedField {
			continue
		}
		w.finalFields["H_"+fi.owner+"_"+fi.field] = true
	}
}

// isFinalComp reports whether a heap component is a final field (see computeFinalFields).
func (w *World) isFinalComp(c string) bool {
	if isRangeMarkerComp(c) || c == compMustCall {
		return true // engine-internal iteration counters: no call can change them
	}
	if w.finalFields[c] {
		return true
	}
	// component names may carry a sort suffix
	for k := range w.finalFields {
		if strings.HasPrefix(c, k+"_") {
			return true
		}
	}
	return false
}
