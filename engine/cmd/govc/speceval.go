package main

import (
	"os"
	"runtime/debug"
	"fmt"
	"go/types"
	"sort"
	"strconv"
	"strings"

	"golang.org/x/tools/go/ssa"
)

// Env is the evaluation environment of a spec expression.
type Env struct {
	fc      *FnCtx
	fr      *Frame // frame whose locals may be referenced by name (loop invariants); may be nil
	st      *State
	old     *State
	vars    map[string]Term
	pkgName string
	head    *State // state at the head of the current loop iteration (backedge clauses)
	at      *ssa.BasicBlock // program point used to pick among same-named locals
	cur     *State // inside old(): the state old() was entered from (local variables keep their current value there)
}

func (e *Env) with(name string, t Term) *Env {
	n := *e
	n.vars = make(map[string]Term, len(e.vars)+1)
	for k, v := range e.vars {
		n.vars[k] = v
	}
	n.vars[name] = t
	return &n
}

type specErr string

func (e *Env) fail(f string, a ...any) { panic(specErr(fmt.Sprintf(f, a...))) }

// evalClause evaluates a clause to a Bool term; errors are reported as contract mismatches.
func (fc *FnCtx) evalClause(env *Env, c Clause) (t Term, err error) {
	defer func() {
		if r := recover(); r != nil {
			if se, ok := r.(specErr); ok {
				err = fmt.Errorf("%s:%d: %s (in %q)", c.File, c.Line, string(se), c.Src)
				return
			}
			panic(r)
		}
	}()
	t = env.eval(c.E)
	if t.Sort != SBool {
		return t, fmt.Errorf("%s:%d: clause is not boolean: %q", c.File, c.Line, c.Src)
	}
	return t, nil
}

// evalGoal evaluates a clause that is to be PROVED: universally quantified variables in
// positive positions are replaced by fresh constants (skolemisation of the negated goal),
// which the solvers handle far better than a negated quantifier.
func (fc *FnCtx) evalGoal(env *Env, c Clause) (t Term, err error) {
	defer func() {
		if r := recover(); r != nil {
			if se, ok := r.(specErr); ok {
				err = fmt.Errorf("%s:%d: %s (in %q)", c.File, c.Line, string(se), c.Src)
				return
			}
			panic(r)
		}
	}()
	t = env.evalGoalExpr(c.E)
	if t.Sort != SBool {
		return t, fmt.Errorf("%s:%d: clause is not boolean: %q", c.File, c.Line, c.Src)
	}
	return t, nil
}

func (e *Env) evalGoalExpr(x SExpr) Term {
	fc := e.fc
	switch x := x.(type) {
	case SQuant:
		if !x.Forall {
			break
		}
		env := e
		var guards []Term
		for _, v := range x.Vars {
			st := fc.resolveType(e.pkgName, v.Type)
			t := fc.fresh("sk_"+identOf(v.Name), st.Sort, st.T)
			env = env.with(v.Name, t)
			if !st.Math && st.T != nil {
				guards = append(guards, fc.typeInv(t, st.T, 0))
			}
		}
		return tImp(tAnd(guards...), env.evalGoalExpr(x.Body))
	case SBinary:
		switch x.Op {
		case "==>":
			return tImp(e.eval(x.X), e.evalGoalExpr(x.Y))
		case "&&":
			return tAnd(e.evalGoalExpr(x.X), e.evalGoalExpr(x.Y))
		}
	case SLet:
		v := fc.define("let", e.eval(x.Val))
		return e.with(x.Name, v).evalGoalExpr(x.Body)
	}
	return e.eval(x)
}

func (w *World) pkgTypes(name string) *types.Package {
	if p, ok := w.pkgs[name]; ok {
		return p.Pkg
	}
	// packages imported by the repository (types only)
	for _, p := range w.prog.AllPackages() {
		if p.Pkg.Name() == name {
			return p.Pkg
		}
	}
	return nil
}

var basicByName = map[string]types.Type{
	"int": types.Typ[types.Int], "int8": types.Typ[types.Int8], "int16": types.Typ[types.Int16], "int32": types.Typ[types.Int32], "int64": types.Typ[types.Int64],
	"uint": types.Typ[types.Uint], "uint8": types.Typ[types.Uint8], "uint16": types.Typ[types.Uint16], "uint32": types.Typ[types.Uint32], "uint64": types.Typ[types.Uint64],
	"byte": types.Typ[types.Uint8], "bool": types.Typ[types.Bool], "string": types.Typ[types.String], "float64": types.Typ[types.Float64],
	"uintptr": types.Typ[types.Uintptr],
}

// specType is a parsed type of the spec language: either a Go type or a logical sort.
type specType struct {
	T    types.Type
	Sort string
	Math bool // mathematical integer: no range
}

func (fc *FnCtx) resolveType(pkgName, text string) specType {
	text = strings.TrimSpace(text)
	switch text {
	case "mathint", "Int":
		return specType{T: types.Typ[types.Int], Sort: SInt, Math: true}
	case "ptr", "Ptr":
		return specType{Sort: SPtr}
	case "bytes":
		t := types.NewSlice(types.Typ[types.Uint8])
		return specType{T: t, Sort: SSlice}
	case "seq":
		return specType{Sort: arraySort(SInt, SInt), Math: true}
	case "any":
		return specType{T: types.NewInterfaceType(nil, nil), Sort: SIface}
	}
	if text == "int" {
		// bound variables and spec parameters of type int are mathematical integers
		return specType{T: types.Typ[types.Int], Sort: SInt, Math: true}
	}
	if t, ok := basicByName[text]; ok {
		return specType{T: t, Sort: fc.sortOf(t)}
	}
	if strings.HasPrefix(text, "[]") {
		el := fc.resolveType(pkgName, text[2:])
		if el.T != nil {
			t := types.NewSlice(el.T)
			return specType{T: t, Sort: SSlice}
		}
	}
	if strings.HasPrefix(text, "*") {
		el := fc.resolveType(pkgName, text[1:])
		if el.T != nil {
			return specType{T: types.NewPointer(el.T), Sort: SPtr}
		}
	}
	// named type, possibly qualified, possibly generic "Name[T]" (type args ignored: origin type)
	name := text
	if i := strings.Index(name, "["); i >= 0 {
		name = name[:i]
	}
	pk := pkgName
	if i := strings.Index(name, "."); i >= 0 {
		pk, name = name[:i], name[i+1:]
	}
	if p := fc.w.pkgTypes(pk); p != nil {
		if obj := p.Scope().Lookup(name); obj != nil {
			if tn, ok := obj.(*types.TypeName); ok {
				return specType{T: tn.Type(), Sort: fc.sortOf(tn.Type())}
			}
		}
	}
	// type parameter of the function under verification
	if fc.fn != nil {
		if t := lookupTypeParam(fc.fn, name); t != nil {
			return specType{T: t, Sort: fc.sortOf(t)}
		}
	}
	panic(specErr(fmt.Sprintf("unknown type %q", text)))
}

func lookupTypeParam(fn *ssa.Function, name string) types.Type {
	sig := fn.Signature
	lists := []*types.TypeParamList{sig.TypeParams(), sig.RecvTypeParams()}
	for _, l := range lists {
		if l == nil {
			continue
		}
		for i := 0; i < l.Len(); i++ {
			if l.At(i).Obj().Name() == name {
				return l.At(i)
			}
		}
	}
	if fn.Parent() != nil {
		return lookupTypeParam(fn.Parent(), name)
	}
	return nil
}

func parseIntLit(s string) string {
	if strings.HasPrefix(s, "0x") || strings.HasPrefix(s, "0X") {
		v, err := strconv.ParseUint(s[2:], 16, 64)
		if err != nil {
			panic(specErr("bad literal " + s))
		}
		return strconv.FormatUint(v, 10)
	}
	for _, c := range s {
		if c < '0' || c > '9' {
			panic(specErr("bad literal " + s))
		}
	}
	return s
}

func (e *Env) eval(x SExpr) Term {
	fc := e.fc
	switch x := x.(type) {
	case SLit:
		return mk(parseIntLit(x.Val), SInt, types.Typ[types.UntypedInt])
	case SBoolL:
		return tBool(x.Val)
	case SNil:
		return mk("PNull", "Nil", nil)
	case SIdent:
		return e.ident(x.Name)
	case SOld:
		if e.old == nil {
			e.fail("old() not allowed here")
		}
		n := *e
		if n.cur == nil && e.st != e.old {
			n.cur = e.st
		}
		n.st = e.old
		return n.eval(x.X)
	case SCall:
		if x.Fun == "as" && len(x.Args) == 2 {
			// as(TypeName, p): p viewed as a pointer to TypeName, where one of the two struct types
			// is the first field of the other (the unsafe casts of the node types)
			id, ok := x.Args[0].(SIdent)
			if !ok {
				e.fail("as(TypeName, pointer)")
			}
			to := fc.resolveType(e.pkgName, id.Name)
			pv := e.eval(x.Args[1])
			if pv.T == nil {
				e.fail("as(%s, ...): untyped pointer, use ptrto", id.Name)
			}
			from := elemTypeOfPtr(pv.T)
			if from == nil || to.T == nil {
				e.fail("as(%s, ...): not a pointer to a struct", id.Name)
			}
			r := fc.unsafeCast(nil, pv, from, to.T) // no assumption: the view is meaningful only where the kind matches
			r.T = types.NewPointer(to.T)
			return r
		}
		if x.Fun == "ptrto" && len(x.Args) == 2 {
			// ptrto(TypeName, p): the untyped pointer p (e.g. unboxptr of an interface value) viewed as *TypeName
			id, ok := x.Args[0].(SIdent)
			if !ok {
				e.fail("ptrto(TypeName, pointer)")
			}
			to := fc.resolveType(e.pkgName, id.Name)
			pv := e.eval(x.Args[1])
			if pv.Sort != SPtr || to.T == nil {
				e.fail("ptrto(%s, ...): needs a pointer and a named type", id.Name)
			}
			pv.T = types.NewPointer(to.T)
			return pv
		}
		if x.Fun == "unboxas" && len(x.Args) == 2 {
			// unboxas(TypeName, i): the value of (non-pointer) type TypeName held by interface value i
			id, ok := x.Args[0].(SIdent)
			if !ok {
				e.fail("unboxas(TypeName, iface)")
			}
			to := fc.resolveType(e.pkgName, id.Name)
			iv := e.eval(x.Args[1])
			if iv.Sort != SIface || to.T == nil {
				e.fail("unboxas(%s, ...): needs an interface value and a named type", id.Name)
			}
			_, unbox := fc.boxFuncs(to.Sort)
			return mk(fmt.Sprintf("(%s (i_val %s))", unbox, iv.S), to.Sort, to.T)
		}
		if x.Fun == "elemOwner" && len(x.Args) == 2 {
			// elemOwner(TypeName, p): the object of struct type TypeName one of whose array fields
			// contains the element that p points to
			id, ok := x.Args[0].(SIdent)
			if !ok {
				e.fail("elemOwner(TypeName, pointer)")
			}
			to := fc.resolveType(e.pkgName, id.Name)
			pv := e.eval(x.Args[1])
			r := mk(fmt.Sprintf("(pf_base (pe_arr %s))", pv.S), SPtr, types.NewPointer(to.T))
			return r
		}
		if x.Fun == "isElemOf" && len(x.Args) == 2 {
			// isElemOf(TypeName, p): p points to an element of an array field of an object of that type
			id, ok := x.Args[0].(SIdent)
			if !ok {
				e.fail("isElemOf(TypeName, pointer)")
			}
			pv := e.eval(x.Args[1])
			var alts []string
			for fid, fi := range fc.w.fidRev {
				if fi.owner == id.Name || strings.HasSuffix(fi.owner, "_"+id.Name) {
					alts = append(alts, fmt.Sprintf("(= (pf_fid (pe_arr %s)) %d)", pv.S, fid))
				}
			}
			if len(alts) == 0 {
				e.fail("isElemOf: unknown struct type %s", id.Name)
			}
			return mk(fmt.Sprintf("(and (is_PElem %s) (is_PField (pe_arr %s)) (or %s false))", pv.S, pv.S, strings.Join(alts, " ")), SBool, nil)
		}
		if x.Fun == "atHead" && len(x.Args) == 1 {
			if e.head == nil {
				e.fail("atHead() is only allowed in loop backedge clauses")
			}
			n := *e
			n.st = e.head
			return n.eval(x.Args[0])
		}
		return e.call(x)
	case SLet:
		v := e.eval(x.Val)
		v = fc.define("let", v)
		return e.with(x.Name, v).eval(x.Body)
	case SCond:
		c := e.eval(x.C)
		a, b := e.eval(x.A), e.eval(x.B)
		a, b = e.unifyNil(a, b)
		return tIte(c, a, b)
	case SUnary:
		v := e.eval(x.X)
		switch x.Op {
		case "!":
			return tNot(v)
		case "-":
			return mk(app("-", v.S), v.Sort, v.T)
		case "*":
			return e.deref(v)
		}
	case SBinary:
		return e.binary(x)
	case SQuant:
		return e.quant(x)
	case SSel:
		return e.sel(e.eval(x.X), x.Sel)
	case SIndex:
		return e.index(e.eval(x.X), e.eval(x.I))
	case SSliceE:
		s := e.eval(x.X)
		if s.Sort != SSlice {
			e.fail("slicing of non-slice %s", x.X)
		}
		lo := tInt(0)
		if x.Lo != nil {
			lo = e.eval(x.Lo)
		}
		hi := slLen(s)
		if x.Hi != nil {
			hi = e.eval(x.Hi)
		}
		r := mkSlice(slArr(s), mk(app("+", slOff(s).S, lo.S), SInt, nil), mk(app("-", hi.S, lo.S), SInt, nil), mk(app("-", slCap(s).S, lo.S), SInt, nil), s.T)
		r.View = s.View
		return r
	}
	e.fail("cannot evaluate %s", x)
	return Term{}
}

func (e *Env) unifyNil(a, b Term) (Term, Term) {
	if a.Sort == "Nil" && b.Sort != "Nil" {
		a = e.nilOf(b)
	}
	if b.Sort == "Nil" && a.Sort != "Nil" {
		b = e.nilOf(a)
	}
	return a, b
}

func (e *Env) nilOf(like Term) Term {
	switch like.Sort {
	case SPtr:
		return mk("PNull", SPtr, like.T)
	case SSlice:
		return mk(tNilSlice.S, SSlice, like.T)
	case SIface:
		return mk("INil", SIface, like.T)
	case SInt:
		return mk("0", SInt, like.T)
	}
	e.fail("nil compared with value of sort %s", like.Sort)
	return Term{}
}

func (e *Env) ident(name string) Term {
	fc := e.fc
	if t, ok := e.vars[name]; ok {
		return t
	}
	if e.fr != nil {
		if e.old != nil && e.st == e.old {
			// inside old(): a parameter denotes its value at entry
			if t, ok := e.fr.top().params[name]; ok && e.fr.parent == nil {
				return t
			}
		}
		if a := e.fr.allocByName(name, e.at); a != nil {
			if e.cur != nil {
				// inside old(): old() rewinds the heap, not the local variables (a local that is
				// not a parameter has no meaningful value in the entry state)
				return e.fr.loadAlloc(e.cur, a)
			}
			return e.fr.loadAlloc(e.st, a)
		}
		// captured variable of a closure: the free variable is a pointer to it
		for _, fv := range e.fr.fn.FreeVars {
			if fv.Name() == name {
				if p, ok := e.fr.freeVars[fv]; ok {
					if et := elemTypeOfPtr(fv.Type()); et != nil {
						v := fc.loadVal(e.st, p, et)
						v.T = et
						return v
					}
				}
			}
		}
	}
	if _, ok := fc.w.specs.Ghost[name]; ok {
		return fc.comp(e.st, name)
	}
	// package-level constants and globals
	if p := fc.w.pkgTypes(e.pkgName); p != nil {
		if obj := p.Scope().Lookup(name); obj != nil {
			switch o := obj.(type) {
			case *types.Const:
				return fc.constTerm(o.Val(), o.Type())
			case *types.Var:
				if g, ok := fc.w.pkgs[e.pkgName].Members[name].(*ssa.Global); ok {
					return fc.loadGlobal(e.st, g)
				}
			}
		}
	}
	if os.Getenv("GOVC_DEBUG") != "" && e.fr != nil {
		fmt.Fprintf(os.Stderr, "DEBUG unknown ident %s in frame %s freeVars=%d depth=%d\n%s\n", name, funcKey(e.fr.fn), len(e.fr.freeVars), e.fr.depth, debug.Stack())
	}
	e.fail("unknown identifier %q", name)
	return Term{}
}

func (e *Env) deref(p Term) Term {
	pt, ok := typeOrNil(p.T).(*types.Pointer)
	if !ok {
		e.fail("dereference of non-pointer")
	}
	v := e.fc.loadVal(e.st, p, pt.Elem())
	return v
}

func typeOrNil(t types.Type) types.Type {
	if t == nil {
		return nil
	}
	return types.Unalias(t).Underlying()
}

// findField finds a (possibly promoted) field by name; returns the chain of (struct type, index).
type fieldStep struct {
	st  types.Type
	idx int
}

func findField(t types.Type, name string, depth int) []fieldStep {
	s, ok := isStruct(t)
	if !ok || depth > 4 {
		return nil
	}
	for i := 0; i < s.NumFields(); i++ {
		if s.Field(i).Name() == name {
			return []fieldStep{{t, i}}
		}
	}
	for i := 0; i < s.NumFields(); i++ {
		f := s.Field(i)
		if !f.Embedded() {
			continue
		}
		ft := f.Type()
		if p, ok := ft.Underlying().(*types.Pointer); ok {
			_ = p
			continue // embedded pointers: handled by caller via explicit deref
		}
		if sub := findField(ft, name, depth+1); sub != nil {
			return append([]fieldStep{{t, i}}, sub...)
		}
	}
	return nil
}

func (e *Env) sel(x Term, name string) Term {
	fc := e.fc
	// pointer to struct: load
	if pt, ok := typeOrNil(x.T).(*types.Pointer); ok {
		steps := findField(pt.Elem(), name, 0)
		if steps == nil {
			// embedded pointer field (e.g. writeTxnHandle.*writeTxnState)
			if s, ok := isStruct(pt.Elem()); ok {
				for i := 0; i < s.NumFields(); i++ {
					f := s.Field(i)
					if f.Embedded() {
						if _, isPtr := f.Type().Underlying().(*types.Pointer); isPtr {
							inner := fc.loadVal(e.st, fc.fieldAddr(x, pt.Elem(), i), f.Type())
							inner.T = f.Type()
							if r, ok := e.trySel(inner, name); ok {
								return r
							}
						}
					}
				}
			}
			e.fail("no field %q in %s", name, shortTypeString(pt.Elem()))
		}
		addr := x
		var ft types.Type
		for _, s := range steps {
			addr = fc.fieldAddr(addr, s.st, s.idx)
			st, _ := isStruct(s.st)
			ft = st.Field(s.idx).Type()
		}
		if isAggregate(ft) {
			addr.T = types.NewPointer(ft)
			return addr // place
		}
		v := fc.loadVal(e.st, addr, ft)
		v.T = ft
		return v
	}
	// struct value
	if _, ok := isStructT(x.T); ok && strings.HasPrefix(x.Sort, "S_") {
		steps := findField(x.T, name, 0)
		if steps == nil {
			e.fail("no field %q in %s", name, shortTypeString(x.T))
		}
		v := x
		for _, s := range steps {
			v = fc.structField(v, s.st, s.idx)
		}
		return v
	}
	e.fail("selector .%s on value of sort %s (type %v)", name, x.Sort, x.T)
	return Term{}
}

func (e *Env) trySel(x Term, name string) (t Term, ok bool) {
	defer func() {
		if r := recover(); r != nil {
			if _, isSE := r.(specErr); isSE {
				ok = false
				return
			}
			panic(r)
		}
	}()
	return e.sel(x, name), true
}

func isStructT(t types.Type) (*types.Struct, bool) {
	if t == nil {
		return nil, false
	}
	return isStruct(t)
}

func (e *Env) index(x, i Term) Term {
	fc := e.fc
	if x.View != nil {
		et := elemOfSliceOrString(x.T)
		return mk(fmt.Sprintf("(select %s (ix (sl_off %s) %s))", x.View.S, x.S, i.S), fc.sortOf(et), et)
	}
	switch u := typeOrNil(x.T).(type) {
	case *types.Slice:
		return e.elemAt(slArr(x), mk(app("ix", slOff(x).S, i.S), SInt, nil), u.Elem())
	case *types.Basic: // string
		if u.Info()&types.IsString != 0 {
			return e.elemAt(slArr(x), mk(app("ix", slOff(x).S, i.S), SInt, nil), types.Typ[types.Uint8])
		}
	case *types.Pointer:
		if a, ok := u.Elem().Underlying().(*types.Array); ok {
			return e.elemAt(x, i, a.Elem())
		}
	case *types.Array:
		es := fc.sortOf(u.Elem())
		return tSel(x, i, es, u.Elem())
	case *types.Map:
		_, val, _, vs := fc.compMap(u)
		inner := mk(app("select", fc.comp(e.st, val).S, x.S), "", nil)
		return mk(app("select", inner.S, i.S), vs, u.Elem())
	}
	if strings.HasPrefix(x.Sort, "(Array Int ") {
		es := strings.TrimSuffix(strings.TrimPrefix(x.Sort, "(Array Int "), ")")
		return mk(app("select", x.S, i.S), es, fc.sortT[es])
	}
	if strings.HasPrefix(x.Sort, "(Array Ptr ") {
		es := strings.TrimSuffix(strings.TrimPrefix(x.Sort, "(Array Ptr "), ")")
		i = e.asPtrIndex(i)
		return mk(app("select", x.S, i.S), es, fc.sortT[es])
	}
	if strings.HasPrefix(x.Sort, "(Array ") && strings.HasSuffix(x.Sort, ")") {
		// (Array K V) with an atomic key sort
		rest := strings.TrimSuffix(strings.TrimPrefix(x.Sort, "(Array "), ")")
		if j := strings.Index(rest, " "); j > 0 && !strings.HasPrefix(rest, "(") && rest[:j] == i.Sort {
			es := rest[j+1:]
			return mk(app("select", x.S, i.S), es, fc.sortT[es])
		}
	}
	e.fail("cannot index value of sort %s (type %v)", x.Sort, x.T)
	return Term{}
}

// asPtrIndex converts a value used as the index of a ghost component into a pointer:
// slices are keyed by their backing array, interface values by their boxed payload.
func (e *Env) asPtrIndex(i Term) Term {
	switch i.Sort {
	case SSlice:
		return slArr(i)
	case SIface:
		return mk(fmt.Sprintf("(PObj (- (- 2000000) (i_val %s)))", i.S), SPtr, nil)
	}
	return i
}

func (e *Env) elemAt(arr, idx Term, et types.Type) Term {
	p := pElem(arr, idx)
	p.T = types.NewPointer(et)
	if isAggregate(et) {
		return p
	}
	v := e.fc.loadScalar(e.st, p, et)
	v.T = et
	return v
}

func (e *Env) binary(x SBinary) Term {
	switch x.Op {
	case "&&":
		return tAnd(e.eval(x.X), e.eval(x.Y))
	case "||":
		return tOr(e.eval(x.X), e.eval(x.Y))
	case "==>":
		return tImp(e.eval(x.X), e.eval(x.Y))
	case "<==>":
		return tEq(e.eval(x.X), e.eval(x.Y))
	}
	a, b := e.eval(x.X), e.eval(x.Y)
	switch x.Op {
	case "==", "!=":
		a, b = e.unifyNil(a, b)
		var r Term
		if a.Sort == SSlice && (x.Y == SExpr(SNil{}) || x.X == SExpr(SNil{})) {
			// s == nil: pointer part is nil
			s := a
			if x.X == SExpr(SNil{}) {
				s = b
			}
			r = mk(fmt.Sprintf("(is_PNull (sl_arr %s))", s.S), SBool, nil)
		} else if a.Sort == SPtr && (a.S == "PNull" || b.S == "PNull") {
			o := a
			if a.S == "PNull" {
				o = b
			}
			r = mk(fmt.Sprintf("(is_PNull %s)", o.S), SBool, nil)
		} else if a.Sort == SSlice && (isStringT(a.T) || isStringT(b.T)) {
			// strings are compared by content, like the == of the code
			fc := e.fc
			fc.declareOnce("streq", "(declare-fun streq (Slice Slice) Bool)\n(assert (forall ((a Slice)) (streq a a)))\n(assert (forall ((a Slice) (b Slice)) (=> (streq a b) (= (sl_len a) (sl_len b)))))\n(assert (forall ((a Slice) (b Slice)) (= (streq a b) (streq b a))))")
			r = mk(app("streq", a.S, b.S), SBool, nil)
		} else {
			if a.Sort != b.Sort {
				e.fail("comparison of different sorts %s and %s in %s", a.Sort, b.Sort, x)
			}
			r = tEq(a, b)
		}
		if x.Op == "!=" {
			return tNot(r)
		}
		return r
	case "<", "<=", ">", ">=":
		return mk(app(x.Op, a.S, b.S), SBool, nil)
	case "+", "-", "*":
		t := a.T
		if isUntyped(t) {
			t = b.T
		}
		return mk(app(x.Op, a.S, b.S), a.Sort, t)
	case "/":
		if a.Sort == SReal {
			return mk(app("/", a.S, b.S), SReal, a.T)
		}
		return mk(app("div", a.S, b.S), SInt, a.T)
	case "%":
		return mk(app("mod", a.S, b.S), SInt, a.T)
	}
	e.fail("unsupported operator %s in spec", x.Op)
	return Term{}
}

func isUntyped(t types.Type) bool {
	if t == nil {
		return true
	}
	b, ok := t.(*types.Basic)
	return ok && b.Info()&types.IsUntyped != 0
}

func (e *Env) quant(q SQuant) Term {
	fc := e.fc
	env := e
	var binders []string
	var guards []Term
	for _, v := range q.Vars {
		st := fc.resolveType(e.pkgName, v.Type)
		fc.n++
		name := fmt.Sprintf("%s!q%d", v.Name, fc.n)
		binders = append(binders, fmt.Sprintf("(%s %s)", name, st.Sort))
		t := mk(name, st.Sort, st.T)
		env = env.with(v.Name, t)
		if !st.Math && st.T != nil {
			guards = append(guards, fc.typeInv(t, st.T, 0))
		}
	}
	fc.inQuant++
	body := env.eval(q.Body)
	fc.inQuant--
	g := tAnd(guards...)
	if q.Forall {
		return mk(fmt.Sprintf("(forall (%s) %s)", strings.Join(binders, " "), tImp(g, body).S), SBool, nil)
	}
	return mk(fmt.Sprintf("(exists (%s) %s)", strings.Join(binders, " "), tAnd(g, body).S), SBool, nil)
}

func (e *Env) call(c SCall) Term {
	fc := e.fc
	args := func() []Term {
		var as []Term
		for _, a := range c.Args {
			as = append(as, e.eval(a))
		}
		return as
	}
	switch c.Fun {
	case "len", "cap":
		a := args()
		if len(a) != 1 {
			e.fail("%s takes one argument", c.Fun)
		}
		x := a[0]
		if x.Sort == SSlice {
			if c.Fun == "len" {
				return slLen(x)
			}
			return slCap(x)
		}
		if pt, ok := typeOrNil(x.T).(*types.Pointer); ok {
			if arr, ok := pt.Elem().Underlying().(*types.Array); ok {
				return tInt(arr.Len())
			}
		}
		if arr, ok := typeOrNil(x.T).(*types.Array); ok {
			return tInt(arr.Len())
		}
		if m, ok := typeOrNil(x.T).(*types.Map); ok {
			id := identOf(shortTypeString(m.Key())) + "__" + identOf(shortTypeString(m.Elem()))
			fc.compMap(m)
			return tSel(fc.comp(e.st, "MN_"+id), x, SInt, types.Typ[types.Int])
		}
		e.fail("len of sort %s", x.Sort)
	case "arr":
		return slArr(args()[0])
	case "arrOf":
		// the whole element array backing a slice (all indices), as a value
		a := args()[0]
		if a.View != nil {
			return *a.View
		}
		et := elemOfSliceOrString(a.T)
		if isAggregate(et) {
			e.fail("arrOf of slice with aggregate elements")
		}
		name, es := fc.compElem(et)
		return mk(fmt.Sprintf("(select %s (sl_arr %s))", fc.comp(e.st, name).S, a.S), arraySort(SInt, es), nil)
	case "off":
		return slOff(args()[0])
	case "fresh":
		// allocated after the old state
		if e.old == nil {
			e.fail("fresh() needs an old state")
		}
		a := args()[0]
		fc.usesRootid = true
		p := a
		if a.Sort == SSlice {
			p = slArr(a)
		}
		return mk(fmt.Sprintf("(>= (rootid %s) %s)", p.S, e.old.nextID.S), SBool, nil)
	case "allocated":
		a := args()[0]
		fc.usesRootid = true
		p := a
		if a.Sort == SSlice {
			p = slArr(a)
		}
		return mk(fmt.Sprintf("(< (rootid %s) %s)", p.S, e.st.nextID.S), SBool, nil)
	case "unchanged":
		// unchanged(COMP): the heap component equals its old version
		if e.old == nil {
			e.fail("unchanged() needs an old state")
		}
		var cs []Term
		for _, a := range c.Args {
			for _, name := range e.compNames(a) {
				cs = append(cs, tEq(fc.comp(e.st, name), fc.comp(e.old, name)))
			}
		}
		return tAnd(cs...)
	case "unchangedOld":
		// unchangedOld(COMP, ...): the components keep their value at every location that existed in the old state
		if e.old == nil {
			e.fail("unchangedOld() needs an old state")
		}
		var cs []Term
		for _, a := range c.Args {
			for _, name := range e.compNames(a) {
				cur, old := fc.comp(e.st, name), fc.comp(e.old, name)
				if cur.S == old.S {
					continue
				}
				cur = fc.nameTerm("hc", cur)
				fc.n++
				q := fmt.Sprintf("q!q%d", fc.n)
				fc.usesRootid = true
				cs = append(cs, mk(fmt.Sprintf("(forall ((%s Ptr)) (! (=> (< (rootid %s) %s) (= (select %s %s) (select %s %s))) :pattern ((select %s %s))))",
					q, q, e.old.nextID.S, cur.S, q, old.S, q, cur.S, q), SBool, nil))
			}
		}
		return tAnd(cs...)
	case "unchangedExcept":
		// unchangedExcept(COMP, p1, p2, ...): the component is unchanged at every index other than p1..pn
		if e.old == nil {
			e.fail("needs an old state")
		}
		var ex []Term
		for _, a := range c.Args[1:] {
			ex = append(ex, e.asPtrIndex(e.eval(a)))
		}
		var cs []Term
		for _, name := range e.compNames(c.Args[0]) {
			cur, old := fc.comp(e.st, name), fc.comp(e.old, name)
			if cur.S == old.S {
				continue
			}
			cur = fc.nameTerm("hc", cur)
			fc.n++
			q := fmt.Sprintf("q!q%d", fc.n)
			var cond []string
			for _, x := range ex {
				cond = append(cond, fmt.Sprintf("(not (= %s %s))", q, x.S))
			}
			c := "true"
			if len(cond) > 0 {
				c = "(and " + strings.Join(cond, " ") + ")"
			}
			cs = append(cs, mk(fmt.Sprintf("(forall ((%s Ptr)) (! (=> %s (= (select %s %s) (select %s %s))) :pattern ((select %s %s))))", q, c, cur.S, q, old.S, q, cur.S, q), SBool, nil))
		}
		return tAnd(cs...)
	case "unchangedExceptArr":
		// unchangedExceptArr(COMP, arrptr, lo, hi): element component changed at most at indices [lo,hi) of array arrptr
		if e.old == nil {
			e.fail("needs an old state")
		}
		a := []Term{e.eval(c.Args[1]), e.eval(c.Args[2]), e.eval(c.Args[3])}
		var cs []Term
		for _, name := range e.compNames(c.Args[0]) {
			cur, old := fc.comp(e.st, name), fc.comp(e.old, name)
			if cur.S == old.S {
				continue
			}
			cur = fc.nameTerm("hc", cur)
			fc.n++
			q, i := fmt.Sprintf("q!q%d", fc.n), fmt.Sprintf("i!q%d", fc.n)
			fc.usesRootid = true
			// (1) every other pre-existing array is unchanged as a whole
			cs = append(cs, mk(fmt.Sprintf("(forall ((%s Ptr)) (! (=> (and (< (rootid %s) %s) (not (= %s %s))) (= (select %s %s) (select %s %s))) :pattern ((select %s %s))))",
				q, q, e.old.nextID.S, q, a[0].S, cur.S, q, old.S, q, cur.S, q), SBool, nil))
			// (2) the designated array is unchanged outside [lo,hi)
			cs = append(cs, mk(fmt.Sprintf("(=> (< (rootid %s) %s) (forall ((%s Int)) (! (=> (or (< %s %s) (>= %s %s)) (= (select (select %s %s) %s) (select (select %s %s) %s))) :pattern ((select (select %s %s) %s)))))",
				a[0].S, e.old.nextID.S, i, i, a[1].S, i, a[2].S, cur.S, a[0].S, i, old.S, a[0].S, i, cur.S, a[0].S, i), SBool, nil))
		}
		return tAnd(cs...)
	case "onlyFresh", "onlyFreshExcept":
		// every location that existed in the old state (other than *except and its sub-objects) is unchanged
		if e.old == nil {
			e.fail("needs an old state")
		}
		var except []Term
		for _, a := range c.Args {
			except = append(except, e.eval(a))
		}
		var cs []Term
		for _, name := range fc.sortedComps() {
			if isRangeMarkerComp(name) || name == compMustCall {
				continue // engine-internal markers, not program memory
			}
			cur, old := fc.comp(e.st, name), fc.comp(e.old, name)
			if cur.S == old.S {
				continue
			}
			cur = fc.nameTerm("hc", cur)
			fc.n++
			q := fmt.Sprintf("q!q%d", fc.n)
			cond := []string{fmt.Sprintf("(< (rootid %s) %s)", q, e.old.nextID.S)}
			for _, x := range except {
				if mt, ok := typeOrNil(x.T).(*types.Map); ok {
					// a map can only be changed through its own components
					d, v, _, _ := fc.compMap(mt)
					if name != d && name != v && name != "MN_"+strings.TrimPrefix(d, "MD_") {
						continue
					}
				}
				cond = append(cond, fmt.Sprintf("(not (= %s %s))", q, x.S),
					fmt.Sprintf("(not (and (is_PField %s) (= (pf_base %s) %s)))", q, q, x.S),
					fmt.Sprintf("(not (and (is_PField %s) (is_PField (pf_base %s)) (= (pf_base (pf_base %s)) %s)))", q, q, q, x.S))
			}
			cs = append(cs, mk(fmt.Sprintf("(forall ((%s Ptr)) (! (=> (and %s) (= (select %s %s) (select %s %s))) :pattern ((select %s %s))))",
				q, strings.Join(cond, " "), cur.S, q, old.S, q, cur.S, q), SBool, nil))
		}
		return tAnd(cs...)
	case "has":
		// has(m, k): key k is present in map m
		a := args()
		mt, ok := typeOrNil(a[0].T).(*types.Map)
		if !ok {
			e.fail("has(map, key)")
		}
		dom, _, _, _ := fc.compMap(mt)
		return mk(fmt.Sprintf("(select (select %s %s) %s)", fc.comp(e.st, dom).S, a[0].S, a[1].S), SBool, nil)
	case "closed":
		a := args()[0]
		return tSel(fc.comp(e.st, fc.compChanClosed()), a, SBool, nil)
	case "int", "uint8", "uint16", "uint32", "uint64", "int64", "int32", "byte", "uint":
		return args()[0]
	case "real":
		a := args()[0]
		if a.Sort == SReal {
			return a
		}
		return mk(app("to_real", a.S), SReal, types.Typ[types.Float64])
	case "trunc":
		a := args()[0]
		return mk(fmt.Sprintf("(ite (>= %s 0.0) (to_int %s) (- (to_int (- %s))))", a.S, a.S, a.S), SInt, types.Typ[types.Int])
	case "addr":
		// addr(x.f): the address of field f (for aggregate fields x.f already denotes its address)
		if len(c.Args) == 1 {
			if ie, ok := c.Args[0].(SIndex); ok {
				// addr(s[i]): the address of element i of slice s
				base := e.eval(ie.X)
				if base.Sort == SSlice {
					i := e.eval(ie.I)
					var et types.Type
					if sl, ok := typeOrNil(base.T).(*types.Slice); ok {
						et = types.NewPointer(sl.Elem())
					} else if base.T != nil {
						if sl, ok := base.T.Underlying().(*types.Slice); ok {
							et = types.NewPointer(sl.Elem())
						}
					}
					r := pElem(slArr(base), mk(fmt.Sprintf("(ix (sl_off %s) %s)", base.S, i.S), SInt, nil))
					r.T = et
					return r
				}
			}
			if sel, ok := c.Args[0].(SSel); ok {
				base := e.eval(sel.X)
				if pt, ok := typeOrNil(base.T).(*types.Pointer); ok {
					if steps := findField(pt.Elem(), sel.Sel, 0); steps != nil {
						addr := base
						var ft types.Type
						for _, s := range steps {
							addr = fc.fieldAddr(addr, s.st, s.idx)
							st, _ := isStruct(s.st)
							ft = st.Field(s.idx).Type()
						}
						addr.T = types.NewPointer(ft)
						return addr
					}
				}
			}
		}
		return args()[0]
	case "unboxptr":
		// unboxptr(i): the pointer-like value (pointer, channel, map) held by interface value i
		a := args()[0]
		_, unbox := fc.boxFuncs(SPtr)
		return mk(fmt.Sprintf("(%s (i_val %s))", unbox, a.S), SPtr, nil)
	case "isBox":
		// isBox(p): p points to a whole allocation (a variable or a new(T)), not into a field
		// or an element of another object
		a := args()[0]
		return mk(fmt.Sprintf("(and (not (is_PElem %s)) (not (is_PField %s)) (not (is_PNull %s)))", a.S, a.S, a.S), SBool, nil)
	case "typeid":
		a := args()[0]
		return mk(app("i_typ", a.S), SInt, nil)
	case "ite":
		a := args()
		x, y := e.unifyNil(a[1], a[2])
		return tIte(a[0], x, y)
	case "store":
		a := args()
		if len(a) != 3 || !strings.HasPrefix(a[0].Sort, "(Array ") {
			e.fail("store(array, index, value)")
		}
		return mk(app("store", a[0].S, a[1].S, a[2].S), a[0].Sort, nil)
	case "mkslice":
		a := args()
		return mkSlice(a[0], a[1], a[2], a[3], nil)
	}
	// ghost state variables: name(args) with zero args handled by ident
	name := c.Fun
	pk := e.pkgName
	sf := fc.w.specs.Specs[pk+"."+name]
	if sf == nil {
		sf = fc.w.specs.Specs["builtin."+name]
	}
	if sf == nil {
		// a spec function of another package, if the name is unambiguous
		var found *SpecFunc
		n := 0
		for k, cand := range fc.w.specs.Specs {
			if strings.HasSuffix(k, "."+name) {
				found = cand
				n++
			}
		}
		if n == 1 {
			sf = found
		}
	}
	if sf == nil {
		e.fail("unknown spec function %q", name)
	}
	return fc.specCall(sf, args(), e)
}

// ---------------------------------------------------------------------------
// spec functions

func (fc *FnCtx) specSMTName(sf *SpecFunc) string { return "sf_" + sf.Pkg + "_" + sf.Name }

// specCall applies a spec function, declaring it (and what it depends on) on first use.
func (fc *FnCtx) specCall(sf *SpecFunc, args []Term, e *Env) Term {
	key := sf.Pkg + "." + sf.Name
	if len(args) != len(sf.Params) {
		e.fail("spec function %s expects %d arguments, got %d", sf.Name, len(sf.Params), len(args))
	}
	fc.declareSpec(sf)
	deps := fc.specDeps[key]
	var as []string
	for _, c := range deps {
		as = append(as, fc.comp(e.st, c).S)
	}
	for i, a := range args {
		pt := fc.resolveType(sf.Pkg, sf.Params[i].Type)
		if a.Sort == "Nil" {
			a = e.nilOf(mk("", pt.Sort, pt.T))
		}
		if a.Sort == SPtr && pt.T != nil && strings.HasPrefix(pt.Sort, "S_") {
			// a struct-typed parameter: the argument denotes the struct's location, pass its value
			a = fc.loadVal(e.st, a, pt.T)
		}
		as = append(as, a.S)
		if et, ok := viewElem(pt); ok {
			if a.View != nil {
				as = append(as, a.View.S)
			} else {
				name, _ := fc.compElem(et)
				as = append(as, fmt.Sprintf("(select %s (sl_arr %s))", fc.comp(e.st, name).S, a.S))
			}
		}
	}
	rt := fc.resolveType(sf.Pkg, sf.Result)
	if len(as) == 0 {
		return mk(fc.specSMTName(sf), rt.Sort, rt.T)
	}
	call := mk(app(fc.specSMTName(sf), as...), rt.Sort, rt.T)
	if fc.specRecursive[key] && fc.unfoldDepth == 0 && fc.noDefine == 0 && groundArgs(as) && !fc.decl["unfold:"+call.S] {
		// one-step unfolding of a recursive spec function at a ground application
		fc.decl["unfold:"+call.S] = true
		fc.unfoldDepth++
		vars := map[string]Term{}
		for i, p := range sf.Params {
			a := args[i]
			pt := fc.resolveType(sf.Pkg, p.Type)
			if a.Sort == "Nil" {
				a = e.nilOf(mk("", pt.Sort, pt.T))
			}
			if et, ok := viewElem(pt); ok && a.View == nil {
				name, es := fc.compElem(et)
				v := mk(fmt.Sprintf("(select %s (sl_arr %s))", fc.comp(e.st, name).S, a.S), arraySort(SInt, es), nil)
				a.View = &v
			}
			if a.T == nil {
				a.T = pt.T
			}
			vars[p.Name] = a
		}
		benv := &Env{fc: fc, st: e.st, vars: vars, pkgName: sf.Pkg}
		fc.noDefine++
		body := benv.eval(sf.Body)
		fc.noDefine--
		fc.unfoldDepth--
		fc.emit(fmt.Sprintf("(assert (= %s %s))", call.S, body.S))
	}
	return call
}

func groundArgs(as []string) bool {
	for _, a := range as {
		if strings.Contains(a, "!q") || strings.Contains(a, "!l") || strings.Contains(a, "a$") || strings.Contains(a, "h$") {
			return false
		}
	}
	return true
}

var specInProgress = map[string]bool{}

func (fc *FnCtx) declareSpec(sf *SpecFunc) {
	key := sf.Pkg + "." + sf.Name
	if fc.specDeclared[key] || specInProgress[key] {
		return
	}
	specInProgress[key] = true
	defer delete(specInProgress, key)
	rt := fc.resolveType(sf.Pkg, sf.Result)
	var params []string
	vars := map[string]Term{}
	for _, p := range sf.Params {
		pt := fc.resolveType(sf.Pkg, p.Type)
		params = append(params, fmt.Sprintf("(%s %s)", "a$"+p.Name, pt.Sort))
		v := mk("a$"+p.Name, pt.Sort, pt.T)
		if et, ok := viewElem(pt); ok {
			as := arraySort(SInt, fc.sortOf(et))
			params = append(params, fmt.Sprintf("(%s %s)", "a$"+p.Name+"$arr", as))
			view := mk("a$"+p.Name+"$arr", as, nil)
			v.View = &view
		}
		vars[p.Name] = v
	}
	if sf.Body == nil {
		var ps []string
		for _, p := range sf.Params {
			pt := fc.resolveType(sf.Pkg, p.Type)
			ps = append(ps, pt.Sort)
			if et, ok := viewElem(pt); ok {
				ps = append(ps, arraySort(SInt, fc.sortOf(et)))
			}
		}
		fc.specDeps[key] = nil
		fc.emit(fmt.Sprintf("(declare-fun %s (%s) %s)", fc.specSMTName(sf), strings.Join(ps, " "), rt.Sort))
		fc.specDeclared[key] = true
		return
	}
	// fixpoint on heap dependencies
	recursive := false
	var bodyS string
	for iter := 0; iter < 8; iter++ {
		pst := &State{locals: nil, heap: map[string]Term{}, nextID: mk("0", SInt, nil), live: tBool(true)}
		used := map[string]bool{}
		// a state whose components are the heap parameters; record which ones are read
		rec := &recordingHeap{fc: fc, used: used}
		pst.heap = rec.mapFor()
		env := &Env{fc: fc, st: pst, vars: vars, pkgName: sf.Pkg}
		// temporarily intercept comp lookups
		save := fc.compHook
		fc.compHook = func(st *State, name string) (Term, bool) {
			if st == pst {
				used[name] = true
				return mk("h$"+name, fc.comps[name], nil), true
			}
			return Term{}, false
		}
		saveLines := len(fc.lines)
		fc.noDefine++
		body := env.eval(sf.Body)
		fc.noDefine--
		fc.compHook = save
		// definitions emitted while evaluating the body (let/define) would be out of scope inside
		// the function definition: spec bodies must not trigger them. Roll back and inline.
		if len(fc.lines) != saveLines {
			// keep sort/spec declarations, they are global; nothing else is expected here
		}
		bodyS = body.S
		if body.Sort != rt.Sort {
			panic(specErr(fmt.Sprintf("spec function %s: body has sort %s, declared %s", sf.Name, body.Sort, rt.Sort)))
		}
		var deps []string
		for c := range used {
			deps = append(deps, c)
		}
		sort.Strings(deps)
		recursive = strings.Contains(bodyS, "("+fc.specSMTName(sf)+" ") || strings.Contains(bodyS, " "+fc.specSMTName(sf)+")")
		if strings.Join(deps, ",") == strings.Join(fc.specDeps[key], ",") && iter > 0 {
			break
		}
		old := strings.Join(fc.specDeps[key], ",")
		fc.specDeps[key] = deps
		if !recursive && iter == 0 && old == strings.Join(deps, ",") {
			break
		}
		if !recursive {
			break
		}
	}
	var hp []string
	for _, c := range fc.specDeps[key] {
		hp = append(hp, fmt.Sprintf("(h$%s %s)", c, fc.comps[c]))
	}
	all := append(hp, params...)
	if recursive {
		// recursive spec functions are uninterpreted; their definition is supplied by one-step
		// unfoldings at ground applications (see specCall) and by lemmas.
		var ps []string
		for _, c := range fc.specDeps[key] {
			ps = append(ps, fc.comps[c])
		}
		for _, p := range sf.Params {
			pt := fc.resolveType(sf.Pkg, p.Type)
			ps = append(ps, pt.Sort)
			if et, ok := viewElem(pt); ok {
				ps = append(ps, arraySort(SInt, fc.sortOf(et)))
			}
		}
		fc.emit(fmt.Sprintf("(declare-fun %s (%s) %s)", fc.specSMTName(sf), strings.Join(ps, " "), rt.Sort))
		fc.specRecursive[key] = true
	} else {
		fc.emit(fmt.Sprintf("(define-fun %s (%s) %s %s)", fc.specSMTName(sf), strings.Join(all, " "), rt.Sort, bodyS))
	}
	fc.specDeclared[key] = true
}

type recordingHeap struct {
	fc   *FnCtx
	used map[string]bool
}

func (r *recordingHeap) mapFor() map[string]Term { return map[string]Term{} }

// viewElem reports whether a spec parameter type is passed together with its element array
// (slices of scalars and strings), and the element type.
func viewElem(pt specType) (types.Type, bool) {
	if pt.T == nil || pt.Sort != SSlice {
		return nil, false
	}
	et := elemOfSliceOrString(pt.T)
	if isAggregate(et) {
		return nil, false
	}
	switch et.Underlying().(type) {
	case *types.Basic:
		return et, true
	}
	return nil, false
}

// compNames resolves a component designator in a contract: a literal component name, a prefix
// ending in *, or "elems(T)" style names are not supported; plain identifiers only.
func (e *Env) compNames(x SExpr) []string {
	id, ok := x.(SIdent)
	if !ok {
		e.fail("component name expected, got %s", x)
	}
	if _, ok := e.fc.comps[id.Name]; ok {
		return []string{id.Name}
	}
	var out []string
	for _, c := range e.fc.sortedComps() {
		if strings.HasPrefix(c, id.Name) {
			out = append(out, c)
		}
	}
	if len(out) == 0 {
		// not known in this context: nothing here reads or writes it
		return nil
	}
	return out
}

func isStringT(t types.Type) bool {
	b := basicOf(t)
	return b != nil && b.Info()&types.IsString != 0
}
