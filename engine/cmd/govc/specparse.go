package main

import (
	"fmt"
	"strings"
	"unicode"
)

// ---------------------------------------------------------------------------
// Spec expression AST

type SExpr interface{ String() string }

type (
	SIdent struct{ Name string }
	SLit   struct{ Val string } // integer literal (decimal or 0x)
	SBoolL struct{ Val bool }
	SNil   struct{}
	SUnary struct {
		Op string
		X  SExpr
	}
	SBinary struct {
		Op   string
		X, Y SExpr
	}
	SCall struct {
		Fun  string
		Args []SExpr
	}
	SIndex struct{ X, I SExpr }
	SSliceE struct {
		X      SExpr
		Lo, Hi SExpr // may be nil
	}
	SSel   struct {
		X   SExpr
		Sel string
	}
	SOld   struct{ X SExpr }
	SCond  struct{ C, A, B SExpr }
	SQuant struct {
		Forall bool
		Vars   []SVar
		Body   SExpr
	}
	SLet struct {
		Name string
		Val  SExpr
		Body SExpr
	}
)

type SVar struct {
	Name string
	Type string // Go type text or "int" default
}

func (e SIdent) String() string  { return e.Name }
func (e SLit) String() string    { return e.Val }
func (e SBoolL) String() string  { return fmt.Sprint(e.Val) }
func (e SNil) String() string    { return "nil" }
func (e SUnary) String() string  { return e.Op + e.X.String() }
func (e SBinary) String() string { return "(" + e.X.String() + " " + e.Op + " " + e.Y.String() + ")" }
func (e SCall) String() string {
	var a []string
	for _, x := range e.Args {
		a = append(a, x.String())
	}
	return e.Fun + "(" + strings.Join(a, ", ") + ")"
}
func (e SIndex) String() string { return e.X.String() + "[" + e.I.String() + "]" }
func (e SSliceE) String() string {
	lo, hi := "", ""
	if e.Lo != nil {
		lo = e.Lo.String()
	}
	if e.Hi != nil {
		hi = e.Hi.String()
	}
	return e.X.String() + "[" + lo + ":" + hi + "]"
}
func (e SSel) String() string  { return e.X.String() + "." + e.Sel }
func (e SOld) String() string  { return "old(" + e.X.String() + ")" }
func (e SCond) String() string { return "(" + e.C.String() + " ? " + e.A.String() + " : " + e.B.String() + ")" }
func (e SQuant) String() string {
	k := "exists"
	if e.Forall {
		k = "forall"
	}
	var vs []string
	for _, v := range e.Vars {
		vs = append(vs, v.Name+" "+v.Type)
	}
	return "(" + k + " " + strings.Join(vs, ", ") + " :: " + e.Body.String() + ")"
}
func (e SLet) String() string {
	return "(let " + e.Name + " = " + e.Val.String() + " in " + e.Body.String() + ")"
}

// ---------------------------------------------------------------------------
// Lexer

type tok struct {
	kind string // id, num, op, eof
	s    string
	pos  int
}

func lexSpec(src string) ([]tok, error) {
	var toks []tok
	i := 0
	for i < len(src) {
		c := src[i]
		switch {
		case c == ' ' || c == '\t' || c == '\n':
			i++
		case unicode.IsLetter(rune(c)) || c == '_' || c == '$':
			j := i + 1
			for j < len(src) && (unicode.IsLetter(rune(src[j])) || unicode.IsDigit(rune(src[j])) || src[j] == '_' || src[j] == '$') {
				j++
			}
			toks = append(toks, tok{"id", src[i:j], i})
			i = j
		case unicode.IsDigit(rune(c)):
			j := i + 1
			for j < len(src) && (unicode.IsDigit(rune(src[j])) || unicode.IsLetter(rune(src[j]))) {
				j++
			}
			toks = append(toks, tok{"num", src[i:j], i})
			i = j
		default:
			ops := []string{"<==>", "==>", "::", "==", "!=", "<=", ">=", "&&", "||", "<<", ">>",
				"+", "-", "*", "/", "%", "<", ">", "!", "(", ")", "[", "]", ".", ",", "?", ":", "&", "|", "^", "=", "{", "}"}
			matched := false
			for _, op := range ops {
				if strings.HasPrefix(src[i:], op) {
					toks = append(toks, tok{"op", op, i})
					i += len(op)
					matched = true
					break
				}
			}
			if !matched {
				return nil, fmt.Errorf("spec: unexpected character %q at %d in %q", c, i, src)
			}
		}
	}
	toks = append(toks, tok{"eof", "", len(src)})
	return toks, nil
}

// ---------------------------------------------------------------------------
// Parser (precedence climbing)

type sparser struct {
	toks []tok
	p    int
	src  string
}

func parseSpecExpr(src string) (e SExpr, err error) {
	toks, err := lexSpec(src)
	if err != nil {
		return nil, err
	}
	ps := &sparser{toks: toks, src: src}
	defer func() {
		if r := recover(); r != nil {
			if pe, ok := r.(parseErr); ok {
				err = fmt.Errorf("spec parse error: %s in %q", string(pe), src)
				return
			}
			panic(r)
		}
	}()
	e = ps.expr()
	if ps.peek().kind != "eof" {
		ps.fail("unexpected token %q", ps.peek().s)
	}
	return e, nil
}

type parseErr string

func (ps *sparser) fail(f string, a ...any) { panic(parseErr(fmt.Sprintf(f, a...))) }
func (ps *sparser) peek() tok               { return ps.toks[ps.p] }
func (ps *sparser) next() tok               { t := ps.toks[ps.p]; ps.p++; return t }
func (ps *sparser) isOp(s string) bool      { t := ps.peek(); return t.kind == "op" && t.s == s }
func (ps *sparser) isId(s string) bool      { t := ps.peek(); return t.kind == "id" && t.s == s }
func (ps *sparser) expectOp(s string) {
	if !ps.isOp(s) {
		ps.fail("expected %q, got %q", s, ps.peek().s)
	}
	ps.next()
}

// expr := quant | cond
func (ps *sparser) expr() SExpr {
	if (ps.isId("forall") || ps.isId("exists")) && ps.toks[ps.p+1].kind == "id" {
		fa := ps.next().s == "forall"
		var vars []SVar
		for {
			t := ps.next()
			if t.kind != "id" {
				ps.fail("expected bound variable name")
			}
			v := SVar{Name: t.s, Type: "int"}
			// optional type: tokens up to ',' or '::'
			var ty []string
			for !ps.isOp(",") && !ps.isOp("::") && ps.peek().kind != "eof" {
				ty = append(ty, ps.next().s)
			}
			if len(ty) > 0 {
				v.Type = strings.Join(ty, "")
			}
			vars = append(vars, v)
			if ps.isOp(",") {
				ps.next()
				continue
			}
			break
		}
		ps.expectOp("::")
		body := ps.expr()
		return SQuant{Forall: fa, Vars: vars, Body: body}
	}
	if ps.isId("let") {
		ps.next()
		name := ps.next().s
		ps.expectOp("=")
		val := ps.binary(0)
		if !ps.isId("in") {
			ps.fail("expected 'in'")
		}
		ps.next()
		body := ps.expr()
		return SLet{Name: name, Val: val, Body: body}
	}
	c := ps.binary(0)
	if ps.isOp("?") {
		ps.next()
		a := ps.expr()
		ps.expectOp(":")
		b := ps.expr()
		return SCond{c, a, b}
	}
	return c
}

var specPrec = map[string]int{
	"<==>": 1, "==>": 2, "||": 3, "&&": 4,
	"==": 5, "!=": 5, "<": 5, "<=": 5, ">": 5, ">=": 5,
	"+": 6, "-": 6, "|": 6, "^": 6,
	"*": 7, "/": 7, "%": 7, "<<": 7, ">>": 7, "&": 7,
}

func (ps *sparser) binary(minPrec int) SExpr {
	lhs := ps.unary()
	for {
		t := ps.peek()
		if t.kind != "op" {
			return lhs
		}
		prec, ok := specPrec[t.s]
		if !ok || prec < minPrec {
			return lhs
		}
		ps.next()
		var rhs SExpr
		if t.s == "==>" {
			// right associative; body may be a quantifier
			if ((ps.isId("forall") || ps.isId("exists")) && ps.toks[ps.p+1].kind == "id") || ps.isId("let") {
				rhs = ps.expr()
			} else {
				rhs = ps.binary(prec)
			}
		} else if (t.s == "&&" || t.s == "||") && (ps.isId("forall") || ps.isId("exists")) && ps.toks[ps.p+1].kind == "id" {
			rhs = ps.expr()
		} else {
			rhs = ps.binary(prec + 1)
		}
		lhs = SBinary{t.s, lhs, rhs}
	}
}

func (ps *sparser) unary() SExpr {
	if ps.isOp("!") || ps.isOp("-") || ps.isOp("*") {
		op := ps.next().s
		x := ps.unary()
		return SUnary{op, x}
	}
	return ps.postfix(ps.primary())
}

func (ps *sparser) primary() SExpr {
	t := ps.next()
	switch t.kind {
	case "num":
		return SLit{t.s}
	case "id":
		switch t.s {
		case "true":
			return SBoolL{true}
		case "false":
			return SBoolL{false}
		case "nil":
			return SNil{}
		case "old":
			if !ps.isOp("(") {
				return SIdent{t.s} // a variable that happens to be called old
			}
			ps.expectOp("(")
			x := ps.expr()
			ps.expectOp(")")
			return SOld{x}
		}
		if ps.isOp("(") {
			ps.next()
			var args []SExpr
			if !ps.isOp(")") {
				for {
					args = append(args, ps.expr())
					if ps.isOp(",") {
						ps.next()
						continue
					}
					break
				}
			}
			ps.expectOp(")")
			return SCall{t.s, args}
		}
		return SIdent{t.s}
	case "op":
		if t.s == "(" {
			x := ps.expr()
			ps.expectOp(")")
			return x
		}
	}
	ps.fail("unexpected token %q", t.s)
	return nil
}

func (ps *sparser) postfix(x SExpr) SExpr {
	for {
		switch {
		case ps.isOp("["):
			ps.next()
			var lo, hi SExpr
			if ps.isOp(":") {
				ps.next()
				if !ps.isOp("]") {
					hi = ps.expr()
				}
				ps.expectOp("]")
				x = SSliceE{x, nil, hi}
				continue
			}
			lo = ps.expr()
			if ps.isOp(":") {
				ps.next()
				if !ps.isOp("]") {
					hi = ps.expr()
				}
				ps.expectOp("]")
				x = SSliceE{x, lo, hi}
				continue
			}
			ps.expectOp("]")
			x = SIndex{x, lo}
		case ps.isOp("."):
			ps.next()
			t := ps.next()
			if t.kind != "id" {
				ps.fail("expected field name after '.'")
			}
			x = SSel{x, t.s}
		default:
			return x
		}
	}
}
