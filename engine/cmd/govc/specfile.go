package main

import (
	"bufio"
	"fmt"
	"os"
	"regexp"
	"strconv"
	"strings"
)

type Clause struct {
	Label string
	Src   string
	E     SExpr
	File  string
	Line  int
}

type LoopSpec struct {
	Invariants []Clause
	BackEdge   []Clause // asserted at the end of every iteration (not assumed at the head); may use atHead(e)
}

type FuncSpec struct {
	Pkg      string // package name (last path element), e.g. "statedb"
	Name     string // e.g. "appendEncode", "(*lpmEntry).upsert", "lpmEntry.len"
	Returns  []string
	Requires []Clause
	Ensures  []Clause
	EnsuresLocal []Clause // checked at the exit of the body (may mention locals); not exported to callers
	Loops    map[int]*LoopSpec
	Modifies []string // heap component patterns
	HasMod   bool
	Pure     bool
	Inline   bool
	Trusted  bool // contract is assumed, body not verified
	MayPanic bool // explicit panics are allowed exits (no obligation)
	Props    []string
	Flags    map[string]string
	Uses     []string // lemma instantiations
	AtCalls  map[string][]Clause // "callee@n" -> extra call-site preconditions (typestate)
	AtStores map[string][]Clause // struct type name -> obligation on every store into an object of that type ($p = the object)
	AfterCalls map[string][]Clause // "callee@n" -> assumptions about the call's result (rely conditions; listed in the evidence)
	MustCalls  map[string][]Clause // "callee@n" -> condition (over the entry state) under which the call must have happened at every return
	File     string
	Line     int
}

func (f *FuncSpec) Key() string { return f.Pkg + "." + f.Name }

type SpecFunc struct {
	Pkg    string
	Name   string
	Params []SVar
	Result string
	Body   SExpr // nil => uninterpreted
	Src    string
	File   string
	Line   int
	Opaque bool
}

type Axiom struct {
	Pkg  string
	Name string
	C    Clause
}

type SpecSet struct {
	Funcs   map[string]*FuncSpec // by Key()
	Specs   map[string]*SpecFunc // by pkg.name
	Axioms  []*Axiom
	Consts  map[string]bool // immutable globals "pkg.Name"
	Ghost   map[string]string // ghost heap components: name -> element sort text (bool|int|ptr)
	Order   []string        // function keys in file order
}

func newSpecSet() *SpecSet {
	return &SpecSet{Funcs: map[string]*FuncSpec{}, Specs: map[string]*SpecFunc{}, Consts: map[string]bool{}, Ghost: map[string]string{}}
}

var clauseKeywords = map[string]bool{
	"func": true, "spec": true, "axiom": true, "requires": true, "ensures": true, "ensureslocal": true,
	"modifies": true, "pure": true, "loop": true, "inline": true, "trusted": true,
	"maypanic": true, "property": true, "returns": true, "flag": true, "use": true,
	"constglobal": true, "opaque": true, "package": true, "ghostcomp": true, "atcall": true, "aftercall": true, "atstore": true, "mustcall": true,
}

var reLabel = regexp.MustCompile(`^@([A-Za-z0-9_.\-]+)\s+`)

// loadSpecFile parses one contract file. pkgName is the Go package name the file
// belongs to (contracts of stdlib functions use "package <name>" directives).
func (ss *SpecSet) loadSpecFile(path, pkgName string) error {
	f, err := os.Open(path)
	if err != nil {
		return err
	}
	defer f.Close()
	sc := bufio.NewScanner(f)
	sc.Buffer(make([]byte, 1<<20), 1<<20)
	type rawClause struct {
		text string
		line int
	}
	var raws []rawClause
	ln := 0
	for sc.Scan() {
		ln++
		line := sc.Text()
		t := strings.TrimSpace(line)
		if !strings.HasPrefix(t, "//@") {
			continue
		}
		body := strings.TrimSpace(t[3:])
		if body == "" || strings.HasPrefix(body, "#") {
			continue
		}
		first := body
		if i := strings.IndexAny(body, " \t("); i >= 0 {
			first = body[:i]
		}
		if clauseKeywords[first] || len(raws) == 0 {
			raws = append(raws, rawClause{body, ln})
		} else {
			raws[len(raws)-1].text += " " + body
		}
	}
	var cur *FuncSpec
	for _, rc := range raws {
		kw, rest := rc.text, ""
		if i := strings.IndexAny(rc.text, " \t"); i >= 0 {
			kw, rest = rc.text[:i], strings.TrimSpace(rc.text[i:])
		}
		mkClause := func(src string) (Clause, error) {
			c := Clause{File: path, Line: rc.line}
			if m := reLabel.FindStringSubmatch(src); m != nil {
				c.Label = m[1]
				src = src[len(m[0]):]
			}
			c.Src = src
			e, err := parseSpecExpr(src)
			if err != nil {
				return c, fmt.Errorf("%s:%d: %v", path, rc.line, err)
			}
			c.E = e
			return c, nil
		}
		switch kw {
		case "package":
			pkgName = rest
			cur = nil
		case "func":
			name := rest
			var rets []string
			if i := strings.Index(rest, " returns"); i >= 0 {
				name = strings.TrimSpace(rest[:i])
				r := strings.TrimSpace(rest[i+len(" returns"):])
				r = strings.Trim(r, "()")
				for _, x := range strings.Split(r, ",") {
					rets = append(rets, strings.TrimSpace(x))
				}
			}
			cur = &FuncSpec{Pkg: pkgName, Name: name, Returns: rets, Loops: map[int]*LoopSpec{}, Flags: map[string]string{}, AtCalls: map[string][]Clause{}, AfterCalls: map[string][]Clause{}, MustCalls: map[string][]Clause{}, AtStores: map[string][]Clause{}, File: path, Line: rc.line}
			if _, dup := ss.Funcs[cur.Key()]; dup {
				return fmt.Errorf("%s:%d: duplicate contract for %s", path, rc.line, cur.Key())
			}
			ss.Funcs[cur.Key()] = cur
			ss.Order = append(ss.Order, cur.Key())
		case "spec":
			sf, err := parseSpecFuncDecl(rest)
			if err != nil {
				return fmt.Errorf("%s:%d: %v", path, rc.line, err)
			}
			sf.Pkg, sf.File, sf.Line = pkgName, path, rc.line
			ss.Specs[pkgName+"."+sf.Name] = sf
			cur = nil
		case "axiom":
			i := strings.Index(rest, ":")
			if i < 0 {
				return fmt.Errorf("%s:%d: axiom needs 'name: expr'", path, rc.line)
			}
			c, err := mkClause(strings.TrimSpace(rest[i+1:]))
			if err != nil {
				return err
			}
			ss.Axioms = append(ss.Axioms, &Axiom{Pkg: pkgName, Name: strings.TrimSpace(rest[:i]), C: c})
			cur = nil
		case "ghostcomp":
			f := strings.Fields(rest)
			if len(f) != 2 {
				return fmt.Errorf("%s:%d: ghostcomp NAME bool|int|ptr", path, rc.line)
			}
			ss.Ghost[f[0]] = f[1]
		case "constglobal":
			for _, g := range strings.Fields(rest) {
				ss.Consts[pkgName+"."+g] = true
			}
		default:
			if cur == nil {
				return fmt.Errorf("%s:%d: clause %q outside a func block", path, rc.line, kw)
			}
			switch kw {
			case "requires":
				c, err := mkClause(rest)
				if err != nil {
					return err
				}
				cur.Requires = append(cur.Requires, c)
			case "ensures":
				c, err := mkClause(rest)
				if err != nil {
					return err
				}
				cur.Ensures = append(cur.Ensures, c)
			case "ensureslocal":
				c, err := mkClause(rest)
				if err != nil {
					return err
				}
				cur.EnsuresLocal = append(cur.EnsuresLocal, c)
			case "loop":
				// loop <n> invariant <expr>
				parts := strings.SplitN(rest, " ", 3)
				if len(parts) < 3 || (parts[1] != "invariant" && parts[1] != "backedge") {
					return fmt.Errorf("%s:%d: expected 'loop <n> invariant|backedge <expr>'", path, rc.line)
				}
				n, err := strconv.Atoi(parts[0])
				if err != nil {
					return fmt.Errorf("%s:%d: bad loop ordinal", path, rc.line)
				}
				c, err := mkClause(strings.TrimSpace(parts[2]))
				if err != nil {
					return err
				}
				if cur.Loops[n] == nil {
					cur.Loops[n] = &LoopSpec{}
				}
				if parts[1] == "backedge" {
					cur.Loops[n].BackEdge = append(cur.Loops[n].BackEdge, c)
				} else {
					cur.Loops[n].Invariants = append(cur.Loops[n].Invariants, c)
				}
			case "modifies":
				cur.HasMod = true
				cur.Modifies = append(cur.Modifies, strings.Fields(strings.ReplaceAll(rest, ",", " "))...)
			case "pure":
				cur.Pure, cur.HasMod = true, true
			case "inline":
				cur.Inline = true
			case "trusted":
				cur.Trusted = true
			case "maypanic":
				cur.MayPanic = true
			case "property":
				cur.Props = append(cur.Props, strings.Fields(rest)...)
			case "returns":
				r := strings.Trim(rest, "()")
				for _, x := range strings.Split(r, ",") {
					cur.Returns = append(cur.Returns, strings.TrimSpace(x))
				}
			case "flag":
				kv := strings.SplitN(rest, "=", 2)
				if len(kv) == 2 {
					cur.Flags[strings.TrimSpace(kv[0])] = strings.TrimSpace(kv[1])
				} else {
					cur.Flags[rest] = "true"
				}
			case "use":
				cur.Uses = append(cur.Uses, rest)
			case "atstore":
				// atstore <StructType> requires <expr>   ($p = pointer to the object that is written)
				parts := strings.SplitN(rest, " ", 3)
				if len(parts) < 3 || parts[1] != "requires" {
					return fmt.Errorf("%s:%d: expected 'atstore <Type> requires <expr>'", path, rc.line)
				}
				c, err := mkClause(strings.TrimSpace(parts[2]))
				if err != nil {
					return err
				}
				cur.AtStores[parts[0]] = append(cur.AtStores[parts[0]], c)
			case "aftercall":
				// aftercall <callee>@<n> assume <expr>   (result denotes the call's first result)
				parts := strings.SplitN(rest, " ", 3)
				if len(parts) < 3 || parts[1] != "assume" {
					return fmt.Errorf("%s:%d: expected 'aftercall <callee>@<n> assume <expr>'", path, rc.line)
				}
				c, err := mkClause(strings.TrimSpace(parts[2]))
				if err != nil {
					return err
				}
				cur.AfterCalls[parts[0]] = append(cur.AfterCalls[parts[0]], c)
			case "mustcall":
				// mustcall <callee>@<n> when <expr>   (on every return path on which <expr> - over the
				// entry state - holds, the n-th call of callee has been executed)
				parts := strings.SplitN(rest, " ", 3)
				if len(parts) < 3 || parts[1] != "when" {
					return fmt.Errorf("%s:%d: expected 'mustcall <callee>@<n> when <expr>'", path, rc.line)
				}
				c, err := mkClause(strings.TrimSpace(parts[2]))
				if err != nil {
					return err
				}
				cur.MustCalls[parts[0]] = append(cur.MustCalls[parts[0]], c)
			case "atcall":
				// atcall <callee>@<n> requires <expr>
				parts := strings.SplitN(rest, " ", 3)
				if len(parts) < 3 || parts[1] != "requires" {
					return fmt.Errorf("%s:%d: expected 'atcall <callee>@<n> requires <expr>'", path, rc.line)
				}
				c, err := mkClause(strings.TrimSpace(parts[2]))
				if err != nil {
					return err
				}
				cur.AtCalls[parts[0]] = append(cur.AtCalls[parts[0]], c)
			default:
				return fmt.Errorf("%s:%d: unknown clause %q", path, rc.line, kw)
			}
		}
	}
	return nil
}

var reSpecDecl = regexp.MustCompile(`^([A-Za-z_][A-Za-z0-9_]*)\s*\(([^)]*)\)\s*([^=]*?)\s*(=\s*(.*))?$`)

func parseSpecFuncDecl(s string) (*SpecFunc, error) {
	m := reSpecDecl.FindStringSubmatch(s)
	if m == nil {
		return nil, fmt.Errorf("bad spec function declaration %q", s)
	}
	sf := &SpecFunc{Name: m[1], Result: strings.TrimSpace(m[3]), Src: s}
	if sf.Result == "" {
		sf.Result = "bool"
	}
	if strings.TrimSpace(m[2]) != "" {
		for _, p := range strings.Split(m[2], ",") {
			p = strings.TrimSpace(p)
			i := strings.IndexAny(p, " \t")
			if i < 0 {
				return nil, fmt.Errorf("spec param %q needs a type", p)
			}
			sf.Params = append(sf.Params, SVar{Name: p[:i], Type: strings.TrimSpace(p[i:])})
		}
	}
	if m[4] != "" {
		e, err := parseSpecExpr(m[5])
		if err != nil {
			return nil, err
		}
		sf.Body = e
	}
	return sf, nil
}
