package main

import (
	"bytes"
	"context"
	"fmt"
	"os"
	"os/exec"
	"path/filepath"
	"strings"
	"sync"
	"time"
)

type SolveResult struct {
	Name    string  `json:"name"`
	Status  string  `json:"status"` // unsat | sat | unknown | timeout | static-true | static-false | error
	Solver  string  `json:"solver"`
	Seconds float64 `json:"seconds"`
	Output  string  `json:"output,omitempty"`
	File    string  `json:"-"`
}

func (o *Obligation) smt(withModel bool) string {
	var b strings.Builder
	b.WriteString("(set-logic ALL)\n")
	if withModel {
		b.WriteString("(set-option :produce-models true)\n")
	}
	b.WriteString(o.prel)
	n := o.NDecl
	if n > len(o.decls) {
		n = len(o.decls)
	}
	for _, l := range sliceDecls(o.decls[:n], o.Live+" "+o.Goal) {
		b.WriteString(l)
		b.WriteString("\n")
	}
	b.WriteString("(assert " + o.Live + ")\n")
	b.WriteString("(assert (not " + o.Goal + "))\n")
	b.WriteString("(check-sat)\n")
	if withModel {
		b.WriteString("(get-model)\n")
	}
	return b.String()
}

type solverCfg struct {
	name string
	args func(timeout int, file string) []string
}

var solvers = []solverCfg{
	{"z3-new", func(t int, f string) []string { return []string{"z3-new", fmt.Sprintf("-T:%d", t), f} }},
	{"cvc5", func(t int, f string) []string { return []string{"cvc5", fmt.Sprintf("--tlimit=%d", t*1000), f} }},
	{"z3", func(t int, f string) []string { return []string{"z3", fmt.Sprintf("-T:%d", t), f} }},
}

func runSolver(sc solverCfg, timeout int, file string) (status string, out string, secs float64) {
	args := sc.args(timeout, file)
	ctx, cancel := context.WithTimeout(context.Background(), time.Duration(timeout+5)*time.Second)
	defer cancel()
	cmd := exec.CommandContext(ctx, args[0], args[1:]...)
	var buf bytes.Buffer
	cmd.Stdout = &buf
	cmd.Stderr = &buf
	t0 := time.Now()
	_ = cmd.Run()
	secs = time.Since(t0).Seconds()
	out = buf.String()
	first := ""
	for _, l := range strings.Split(out, "\n") {
		l = strings.TrimSpace(l)
		if l == "" || strings.HasPrefix(l, "WARNING") || strings.HasPrefix(l, "(warning") {
			continue
		}
		first = l
		break
	}
	if strings.Contains(out, "(error") {
		// an ill-formed query (e.g. a sort error from a badly typed contract expression) decides
		// nothing, whatever the solver prints after it
		return "error", out, secs
	}
	switch first {
	case "unsat", "sat", "unknown":
		return first, out, secs
	case "timeout":
		return "timeout", out, secs
	}
	if ctx.Err() != nil || strings.Contains(out, "timeout") || strings.Contains(out, "interrupted") {
		return "timeout", out, secs
	}
	return "error", out, secs
}

// solveAll discharges the obligations on a worker pool.
func solveAll(obls []*Obligation, dir string, timeout int, workers int, wantModel bool) []SolveResult {
	res := make([]SolveResult, len(obls))
	var wg sync.WaitGroup
	ch := make(chan int)
	for w := 0; w < workers; w++ {
		wg.Add(1)
		go func() {
			defer wg.Done()
			for i := range ch {
				res[i] = solveOne(obls[i], dir, timeout, wantModel)
			}
		}()
	}
	for i := range obls {
		ch <- i
	}
	close(ch)
	wg.Wait()
	return res
}

func fileSafe(s string) string {
	r := strings.NewReplacer("/", "_", "*", "p", "(", "", ")", "", "#", "__", "$", "S", "@", "_at_", "~", "_")
	return r.Replace(s)
}

func solveOne(o *Obligation, dir string, timeout int, wantModel bool) SolveResult {
	r := SolveResult{Name: o.Name}
	if o.Goal == "true" {
		r.Status, r.Solver = "unsat", "static"
		return r
	}
	if o.Live == "true" && o.Goal == "false" && o.NDecl == 0 {
		r.Status, r.Solver = "sat", "static"
		r.Output = o.Descr
		return r
	}
	file := filepath.Join(dir, fileSafe(o.Name)+".smt2")
	text := o.smt(false)
	if len(text) > 4<<20 {
		r.Status, r.Output = "error", fmt.Sprintf("VC too large (%d bytes)", len(text))
		return r
	}
	if err := os.WriteFile(file, []byte(text), 0o644); err != nil {
		r.Status, r.Output = "error", err.Error()
		return r
	}
	r.File = file
	var last string
	for _, sc := range solvers {
		st, out, secs := runSolver(sc, timeout, file)
		r.Seconds += secs
		if st == "unsat" {
			r.Status, r.Solver = "unsat", sc.name
			return r
		}
		if st == "sat" {
			r.Status, r.Solver = "sat", sc.name
			if wantModel {
				mfile := filepath.Join(dir, fileSafe(o.Name)+".model.smt2")
				os.WriteFile(mfile, []byte(o.smt(true)), 0o644)
				_, mout, _ := runSolver(sc, timeout, mfile)
				if len(mout) > 20000 {
					mout = mout[:20000] + "\n...truncated"
				}
				r.Output = mout
			}
			return r
		}
		last = st
		if len(out) > 400 {
			out = out[:400]
		}
		r.Output += sc.name + ": " + st + " " + strings.TrimSpace(out) + "\n"
		if o.Canary && sc.name == "z3-new" {
			// canaries are expected not to be provable; one solver is enough
			break
		}
	}
	r.Status = last
	if r.Status == "" {
		r.Status = "unknown"
	}
	if !o.Canary && strings.Contains(r.Output, "timeout") && timeout < 60 {
		// Every solver gave up within the quick limit. Typical obligations take well under a
		// second, so a timeout is most often a loaded machine: try once more with a long limit
		// before reporting the obligation as not discharged.
		// All solvers race with the long limit; the first decisive answer wins.
		type ans struct {
			st, out, name string
			secs          float64
		}
		ch := make(chan ans, len(solvers))
		for _, sc := range solvers {
			go func(sc solverCfg) {
				st, out, secs := runSolver(sc, 90, file)
				ch <- ans{st, out, sc.name, secs}
			}(sc)
		}
		var maxSecs float64
		for range solvers {
			a := <-ch
			if a.secs > maxSecs {
				maxSecs = a.secs
			}
			if a.st == "unsat" || a.st == "sat" {
				r.Seconds += a.secs
				r.Status, r.Solver = a.st, a.name+" (retry, long limit)"
				if a.st == "sat" {
					r.Output = a.out
				}
				return r
			}
		}
		r.Seconds += maxSecs
	}
	return r
}

// ---------------------------------------------------------------------------
// cone-of-influence slicing of the declaration context

func symbolsOf(s string) []string {
	var out []string
	i := 0
	for i < len(s) {
		c := s[i]
		if c == '(' || c == ')' || c == ' ' || c == '\t' || c == '\n' {
			i++
			continue
		}
		if c == ';' { // comment to end of line
			for i < len(s) && s[i] != '\n' {
				i++
			}
			continue
		}
		j := i
		for j < len(s) && s[j] != '(' && s[j] != ')' && s[j] != ' ' && s[j] != '\n' && s[j] != '\t' {
			j++
		}
		out = append(out, s[i:j])
		i = j
	}
	return out
}

type declLine struct {
	text    string
	defines string // symbol declared/defined by this line ("" for asserts)
	kind    byte   // 'd' declare, 'f' define, 'a' assert, 's' sort/datatype (always kept)
	syms    []string
}

func parseDeclLine(l string) declLine {
	d := declLine{text: l}
	switch {
	case strings.HasPrefix(l, "(declare-const "), strings.HasPrefix(l, "(declare-fun "):
		d.kind = 'd'
		f := strings.Fields(l)
		d.defines = strings.TrimRight(f[1], "()")
	case strings.HasPrefix(l, "(define-fun "), strings.HasPrefix(l, "(define-fun-rec "):
		d.kind = 'f'
		f := strings.Fields(l)
		d.defines = f[1]
	case strings.HasPrefix(l, "(assert "):
		d.kind = 'a'
	default:
		d.kind = 's'
	}
	d.syms = symbolsOf(l)
	return d
}

func sliceDecls(lines []string, roots string) []string {
	ds := make([]declLine, len(lines))
	declared := map[string]bool{} // declared (unconstrained) symbols
	for i, l := range lines {
		ds[i] = parseDeclLine(l)
		if ds[i].kind == 'd' {
			declared[ds[i].defines] = true
		}
	}
	rel := map[string]bool{}
	for _, s := range symbolsOf(roots) {
		rel[s] = true
	}
	keep := make([]bool, len(ds))
	for changed := true; changed; {
		changed = false
		for i := range ds {
			if keep[i] {
				continue
			}
			d := &ds[i]
			take := false
			switch d.kind {
			case 's':
				take = true
			case 'd', 'f':
				take = rel[d.defines]
			case 'a':
				for _, s := range d.syms {
					if declared[s] && rel[s] {
						take = true
						break
					}
				}
			}
			if take {
				keep[i] = true
				changed = true
				for _, s := range d.syms {
					if !rel[s] {
						rel[s] = true
					}
				}
			}
		}
	}
	var out []string
	for i, d := range ds {
		if keep[i] {
			out = append(out, d.text)
		}
	}
	return out
}
